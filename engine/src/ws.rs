//! Real WebSocket front end (nundb::network::ws_ops::start_web_socket_client) on a loopback port,
//! and a minimal hand-written client (RFC 6455 framing) so the harness owns every byte it sends:
//! text frames, binary frames, frames whose payload is not UTF-8.
use nundb::bo::Databases;
use std::io::{Read, Write};
use std::net::TcpStream;
use std::sync::Arc;
use std::time::{Duration, Instant};

pub struct WsServer {
    pub port: u16,
    handle: Option<std::thread::JoinHandle<()>>,
}

impl WsServer {
    pub fn start(dbs: Arc<Databases>) -> WsServer {
        for _attempt in 0..8 {
            let port = crate::http::free_port();
            let addr = Arc::new(format!("127.0.0.1:{}", port));
            let d = dbs.clone();
            let handle = std::thread::Builder::new().name(format!("ws-{}", port)).spawn(move || nundb::network::ws_ops::start_web_socket_client(d, addr)).unwrap();
            for _ in 0..2000 {
                if handle.is_finished() {
                    break;
                }
                if let Ok(s) = TcpStream::connect(("127.0.0.1", port)) {
                    drop(s);
                    if !handle.is_finished() {
                        return WsServer { port, handle: Some(handle) };
                    }
                }
                std::thread::sleep(Duration::from_millis(2));
            }
        }
        eprintln!("machinery: the websocket server could not be started on any port");
        std::process::exit(2);
    }

    /// has the service thread (the ws event loop) ended?  It never should.
    pub fn service_dead(&self) -> bool {
        self.handle.as_ref().map(|h| h.is_finished()).unwrap_or(true)
    }

    pub fn connect(&self) -> Result<WsConn, String> {
        let mut s = TcpStream::connect(("127.0.0.1", self.port)).map_err(|e| format!("connect: {}", e))?;
        s.set_read_timeout(Some(Duration::from_secs(5))).unwrap();
        s.set_nodelay(true).ok();
        let req = format!("GET / HTTP/1.1\r\nHost: 127.0.0.1:{}\r\nUpgrade: websocket\r\nConnection: Upgrade\r\nSec-WebSocket-Key: dGhlIHNhbXBsZSBub25jZQ==\r\nSec-WebSocket-Version: 13\r\n\r\n", self.port);
        s.write_all(req.as_bytes()).map_err(|e| format!("handshake write: {}", e))?;
        // read the response head
        let mut head = vec![];
        let mut b = [0u8; 1];
        while !head.ends_with(b"\r\n\r\n") {
            match s.read(&mut b) {
                Ok(1) => head.push(b[0]),
                Ok(_) => return Err("handshake: eof".into()),
                Err(e) => return Err(format!("handshake read: {}", e)),
            }
            if head.len() > 4096 {
                return Err("handshake: too long".into());
            }
        }
        let h = String::from_utf8_lossy(&head).to_string();
        if !h.starts_with("HTTP/1.1 101") {
            return Err(format!("handshake refused: {}", h.lines().next().unwrap_or("")));
        }
        Ok(WsConn { s })
    }
}

pub struct WsConn {
    s: TcpStream,
}

#[derive(Debug, Clone, PartialEq)]
pub enum Frame {
    Text(String),
    Binary(Vec<u8>),
    Close,
    Other(u8),
}

impl WsConn {
    fn send_frame(&mut self, opcode: u8, payload: &[u8]) -> std::io::Result<()> {
        let mut f = vec![0x80 | opcode];
        let mask = [0x12u8, 0x34, 0x56, 0x78];
        if payload.len() < 126 {
            f.push(0x80 | payload.len() as u8);
        } else if payload.len() < 65536 {
            f.push(0x80 | 126);
            f.extend_from_slice(&(payload.len() as u16).to_be_bytes());
        } else {
            f.push(0x80 | 127);
            f.extend_from_slice(&(payload.len() as u64).to_be_bytes());
        }
        f.extend_from_slice(&mask);
        f.extend(payload.iter().enumerate().map(|(i, b)| b ^ mask[i % 4]));
        self.s.write_all(&f)
    }
    pub fn send_text(&mut self, t: &[u8]) -> bool {
        self.send_frame(1, t).is_ok()
    }
    pub fn send_binary(&mut self, t: &[u8]) -> bool {
        self.send_frame(2, t).is_ok()
    }
    /// one frame, or None on timeout / connection end
    pub fn read_frame(&mut self, timeout_ms: u64) -> Option<Frame> {
        let _ = self.s.set_read_timeout(Some(Duration::from_millis(timeout_ms.max(1))));
        let mut h = [0u8; 2];
        self.s.read_exact(&mut h).ok()?;
        let _ = self.s.set_read_timeout(Some(Duration::from_secs(5)));
        let op = h[0] & 0x0f;
        let mut len = (h[1] & 0x7f) as u64;
        if len == 126 {
            let mut b = [0u8; 2];
            self.s.read_exact(&mut b).ok()?;
            len = u16::from_be_bytes(b) as u64;
        } else if len == 127 {
            let mut b = [0u8; 8];
            self.s.read_exact(&mut b).ok()?;
            len = u64::from_be_bytes(b);
        }
        let mut p = vec![0u8; len as usize];
        self.s.read_exact(&mut p).ok()?;
        Some(match op {
            1 => Frame::Text(String::from_utf8_lossy(&p).to_string()),
            2 => Frame::Binary(p),
            8 => Frame::Close,
            o => Frame::Other(o),
        })
    }
    /// text frames until `want` of them begin with `ok` / `error` (one per command), or the timeout passes
    pub fn read_replies(&mut self, want: usize, timeout_ms: u64) -> Vec<String> {
        let mut out = vec![];
        let mut done = 0;
        let end = Instant::now() + Duration::from_millis(timeout_ms);
        while done < want {
            let left = end.saturating_duration_since(Instant::now()).as_millis() as u64;
            if left == 0 {
                break;
            }
            match self.read_frame(left) {
                Some(Frame::Text(t)) => {
                    if t.starts_with("ok") || t.starts_with("error ") {
                        done += 1;
                    }
                    out.push(t);
                }
                Some(Frame::Close) | None => break,
                Some(_) => {}
            }
        }
        out
    }
    /// one text frame holding `cmds` joined by ';' ; the frames it produces
    pub fn cmd(&mut self, frame: &str) -> Vec<String> {
        let n = frame.split(';').count();
        if !self.send_text(frame.as_bytes()) {
            return vec![];
        }
        self.read_replies(n, 3000)
    }
    /// sends the given text frames, then a frame with an unknown command as end marker, and returns
    /// every text frame the server sent before the marker's reply (no time-outs involved: the
    /// server handles frames in order); None when the connection ended first
    pub fn frames_until_marker(&mut self, frames: &[String]) -> Option<Vec<String>> {
        for f in frames {
            if !self.send_text(f.as_bytes()) {
                return None;
            }
        }
        if !self.send_text(b"zzz-end-marker") {
            return None;
        }
        let mut out = vec![];
        loop {
            match self.read_frame(5000) {
                Some(Frame::Text(t)) => {
                    if t.starts_with("error unknown command: zzz-end-marker") {
                        return Some(out);
                    }
                    out.push(t);
                }
                Some(Frame::Close) | None => return None,
                Some(_) => {}
            }
        }
    }
    /// the connection just goes away (no closing handshake), optionally with a reset
    pub fn drop_abruptly(self, reset: bool) {
        if reset {
            use std::os::unix::io::AsRawFd;
            let l = libc::linger { l_onoff: 1, l_linger: 0 };
            unsafe {
                libc::setsockopt(self.s.as_raw_fd(), libc::SOL_SOCKET, libc::SO_LINGER, &l as *const _ as *const libc::c_void, std::mem::size_of::<libc::linger>() as libc::socklen_t);
            }
        }
        drop(self);
    }
    /// closing handshake; true when the server answered it (its on_close has run by then or runs right after)
    pub fn close_and_wait(mut self) -> bool {
        let _ = self.send_frame(8, &1000u16.to_be_bytes());
        let end = Instant::now() + Duration::from_secs(5);
        loop {
            let left = end.saturating_duration_since(Instant::now()).as_millis() as u64;
            if left == 0 {
                return false;
            }
            match self.read_frame(left) {
                Some(Frame::Close) => {
                    // wait for the server to drop the socket
                    let mut b = [0u8; 64];
                    let _ = self.s.set_read_timeout(Some(Duration::from_secs(2)));
                    loop {
                        match self.s.read(&mut b) {
                            Ok(0) | Err(_) => return true,
                            Ok(_) => {}
                        }
                    }
                }
                Some(_) => {}
                None => return false,
            }
        }
    }
}
