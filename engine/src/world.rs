//! In-process construction of real nun-db nodes and client sessions.
use futures::channel::mpsc::{channel, Receiver, Sender};
use nundb::bo::*;
use nundb::verif_hooks::{self, Hooks};
use std::collections::BTreeMap;
use std::panic::{catch_unwind, AssertUnwindSafe};
use std::path::PathBuf;
use std::sync::atomic::{AtomicBool, AtomicU64, AtomicUsize, Ordering};
use std::sync::{Arc, Condvar, Mutex};

pub const USER: &str = "u";
pub const PWD: &str = "p";

static WORLD_SEQ: AtomicUsize = AtomicUsize::new(0);

pub fn scratch_root() -> PathBuf {
    let base = if std::path::Path::new("/dev/shm").is_dir() {
        "/dev/shm"
    } else {
        "/tmp"
    };
    PathBuf::from(format!("{}/nunmc-{}", base, std::process::id()))
}

/// scratch directories of runs that were killed (their pid no longer exists)
pub fn remove_stale_scratch() {
    for base in ["/dev/shm", "/tmp"] {
        if let Ok(rd) = std::fs::read_dir(base) {
            for e in rd.flatten() {
                let name = e.file_name().to_string_lossy().to_string();
                if let Some(pid) = name.strip_prefix("nunmc-") {
                    if !std::path::Path::new(&format!("/proc/{}", pid)).exists() {
                        let _ = std::fs::remove_dir_all(e.path());
                    }
                }
            }
        }
    }
}

pub fn cleanup_scratch() {
    let _ = std::fs::remove_dir_all(scratch_root());
}

/// Per-node context: data directory, logical clock, snapshot key order.
pub struct NodeCtx {
    pub dir: PathBuf,
    /// logical clock; shared between the nodes of a cluster when synchronised wall clocks are modelled
    pub clock: Arc<AtomicU64>,
    /// permutation index applied to the (sorted) dirty key list of the next snapshots
    pub key_order: Mutex<Option<Vec<usize>>>,
    pub last_dirty: Mutex<Vec<String>>,
    /// permutation applied to the user (non-$) keys only; system keys stay first, sorted
    pub user_perm: Mutex<Option<Vec<usize>>>,
    /// outbound replication links handed over by the real supervisor's link threads (hook H7)
    pub links: Mutex<Vec<Arc<LinkHandle>>>,
    pub links_cv: Condvar,
    pub shutdown: AtomicBool,
    /// election sleeps: true = virtual (return at once), false = real sleep
    pub virtual_sleep: AtomicBool,
    /// start-up loads the data directory's entries sorted by name; true = descending
    pub dir_desc: AtomicBool,
    pub sleeps: AtomicU64,
    pub events: Mutex<Vec<String>>,
    /// true = the node reads the wall clock (real-transport conformance stage, one node per process)
    pub real_clock: AtomicBool,
    /// true = the clock does not advance between reads (a coarse clock: two changes issued in one tick)
    pub clock_hold: AtomicBool,
}

pub enum LinkCmd {
    /// run one line coming back from the peer through the link's own Client (acks, ok, errors)
    Deliver(String),
    /// take everything the node queued for this peer
    Drain,
    Close,
}

pub enum LinkResp {
    Delivered(Result<String, String>),
    Drained(Vec<String>),
}

/// Explorer-side handle of one outbound link; the link thread itself serves the commands, so the
/// link's real `Client` and channel receiver never leave the thread that owns them.
pub struct LinkHandle {
    pub peer: String,
    pub self_addr: String,
    pub is_primary: bool,
    pub cmd: Mutex<std::sync::mpsc::Sender<LinkCmd>>,
    pub resp: Mutex<std::sync::mpsc::Receiver<LinkResp>>,
    pub closed: AtomicBool,
}

impl LinkHandle {
    pub fn drain(&self) -> Vec<String> {
        if self.closed.load(Ordering::SeqCst) {
            return vec![];
        }
        if self.cmd.lock().unwrap().send(LinkCmd::Drain).is_err() {
            return vec![];
        }
        match self.resp.lock().unwrap().recv_timeout(std::time::Duration::from_secs(20)) {
            Ok(LinkResp::Drained(v)) => v,
            _ => vec![],
        }
    }
    pub fn deliver(&self, line: &str) -> Result<String, String> {
        if self.closed.load(Ordering::SeqCst) {
            return Err("link closed".into());
        }
        if self.cmd.lock().unwrap().send(LinkCmd::Deliver(line.to_string())).is_err() {
            return Err("link thread gone".into());
        }
        match self.resp.lock().unwrap().recv_timeout(std::time::Duration::from_secs(20)) {
            Ok(LinkResp::Delivered(r)) => r,
            _ => Err("link thread did not answer".into()),
        }
    }
    pub fn close(&self) {
        if !self.closed.swap(true, Ordering::SeqCst) {
            let _ = self.cmd.lock().unwrap().send(LinkCmd::Close);
        }
    }
}

impl NodeCtx {
    pub fn new(dir: PathBuf, clock_start: u64) -> Arc<NodeCtx> {
        NodeCtx::with_clock(dir, Arc::new(AtomicU64::new(clock_start)))
    }
    pub fn with_clock(dir: PathBuf, clock: Arc<AtomicU64>) -> Arc<NodeCtx> {
        std::fs::create_dir_all(&dir).unwrap();
        Arc::new(NodeCtx {
            dir,
            clock,
            key_order: Mutex::new(None),
            last_dirty: Mutex::new(vec![]),
            user_perm: Mutex::new(None),
            links: Mutex::new(vec![]),
            links_cv: Condvar::new(),
            shutdown: AtomicBool::new(false),
            virtual_sleep: AtomicBool::new(true),
            dir_desc: AtomicBool::new(false),
            sleeps: AtomicU64::new(0),
            events: Mutex::new(vec![]),
            real_clock: AtomicBool::new(false),
            clock_hold: AtomicBool::new(false),
        })
    }
    pub fn install(self: &Arc<Self>) {
        verif_hooks::install_thread(Some(self.clone() as Arc<dyn Hooks>));
    }
}

impl Hooks for NodeCtx {
    fn data_dir(&self) -> Option<String> {
        Some(self.dir.to_str().unwrap().to_string())
    }
    fn now_nanos(&self) -> Option<u64> {
        if self.real_clock.load(Ordering::SeqCst) {
            return None;
        }
        if self.clock_hold.load(Ordering::SeqCst) {
            return Some(self.clock.load(Ordering::SeqCst));
        }
        Some(self.clock.fetch_add(1, Ordering::SeqCst) + 1)
    }
    fn sleep(&self, _dur: std::time::Duration, _site: &'static std::panic::Location<'static>) -> bool {
        self.sleeps.fetch_add(1, Ordering::SeqCst);
        self.virtual_sleep.load(Ordering::SeqCst)
    }
    fn event(&self, name: &'static str, detail: &str) {
        self.events.lock().unwrap().push(format!("{} {}", name, detail));
    }
    fn order_dir_entries(&self, entries: &mut Vec<std::io::Result<std::fs::DirEntry>>) {
        // read_dir order belongs to the file system; the harness decides it
        entries.sort_by_key(|e| e.as_ref().map(|e| e.file_name()).unwrap_or_default());
        if self.dir_desc.load(Ordering::SeqCst) {
            entries.reverse();
        }
    }
    fn order_keys(&self, keys: &mut Vec<(String, Value)>) {
        keys.sort_by(|a, b| a.0.cmp(&b.0));
        *self.last_dirty.lock().unwrap() = keys.iter().map(|k| k.0.clone()).collect();
        if let Some(perm) = self.user_perm.lock().unwrap().as_ref() {
            let (sys, user): (Vec<_>, Vec<_>) = keys.iter().cloned().partition(|k| k.0.starts_with('$'));
            if perm.len() == user.len() {
                let mut out = sys;
                for p in perm.iter() {
                    out.push(user[*p].clone());
                }
                *keys = out;
            }
        }
        if let Some(perm) = self.key_order.lock().unwrap().as_ref() {
            if perm.len() == keys.len() {
                let old = keys.clone();
                for (i, p) in perm.iter().enumerate() {
                    keys[i] = old[*p].clone();
                }
            }
        }
    }
}

/// Process-global hook object: threads spawned by nun-db itself (link threads) have no
/// thread-local hooks; they are routed to their node's context through the Databases pointer.
pub struct GlobalHooks {}
/// false = outbound replication links are NOT taken over: the node's link threads talk real TCP
/// (real-transport conformance stage, `nunmc realnode`)
pub static LINK_TAKEOVER: AtomicBool = AtomicBool::new(true);
pub static REGISTRY: Mutex<Vec<(usize, Arc<NodeCtx>)>> = Mutex::new(Vec::new());

pub fn ctx_of(dbs: &Arc<Databases>) -> Option<Arc<NodeCtx>> {
    let id = Arc::as_ptr(dbs) as usize;
    REGISTRY.lock().unwrap().iter().find(|(p, _)| *p == id).map(|(_, c)| c.clone())
}

/// Threads the code under test spawns itself (a transport's connection handlers) have no
/// thread-local hook object; while a transport stage runs one node, that node's context answers
/// for them (data directory, logical clock).
static FALLBACK_CTX: Mutex<Option<Arc<NodeCtx>>> = Mutex::new(None);

pub fn set_fallback_ctx(ctx: Option<Arc<NodeCtx>>) {
    *FALLBACK_CTX.lock().unwrap() = ctx;
}

fn fallback() -> Option<Arc<NodeCtx>> {
    FALLBACK_CTX.lock().ok().and_then(|g| g.clone())
}

impl Hooks for GlobalHooks {
    fn data_dir(&self) -> Option<String> {
        fallback().and_then(|c| c.data_dir())
    }
    fn now_nanos(&self) -> Option<u64> {
        fallback().and_then(|c| c.now_nanos())
    }
    fn link_takeover(
        &self,
        peer: &str,
        self_addr: &str,
        is_primary: bool,
        dbs: &Arc<Databases>,
        client: &mut Client,
        receiver: &mut Receiver<String>,
    ) -> bool {
        if !LINK_TAKEOVER.load(Ordering::SeqCst) {
            return false;
        }
        let ctx = match ctx_of(dbs) {
            Some(c) => c,
            None => return true, // node already gone: behave like a dead link
        };
        ctx.install();
        let (cmd_tx, cmd_rx) = std::sync::mpsc::channel::<LinkCmd>();
        let (resp_tx, resp_rx) = std::sync::mpsc::channel::<LinkResp>();
        let handle = Arc::new(LinkHandle {
            peer: peer.to_string(),
            self_addr: self_addr.to_string(),
            is_primary,
            cmd: Mutex::new(cmd_tx),
            resp: Mutex::new(resp_rx),
            closed: AtomicBool::new(false),
        });
        {
            ctx.links.lock().unwrap().push(handle.clone());
            ctx.links_cv.notify_all();
        }
        loop {
            match cmd_rx.recv_timeout(std::time::Duration::from_millis(200)) {
                Ok(LinkCmd::Close) => break,
                Ok(LinkCmd::Drain) => {
                    let mut v = vec![];
                    while let Ok(Some(m)) = receiver.try_next() {
                        v.push(m)
                    }
                    let _ = resp_tx.send(LinkResp::Drained(v));
                }
                Ok(LinkCmd::Deliver(line)) => {
                    let d = dbs.clone();
                    let r = catch_unwind(AssertUnwindSafe(|| nundb::process_request::process_request(&line, &d, client)));
                    let _ = resp_tx.send(LinkResp::Delivered(match r {
                        Ok(resp) => Ok(resp_str(&resp)),
                        Err(e) => Err(format!("{} at {:?}", panic_msg(&e), take_panic_loc())),
                    }));
                }
                Err(std::sync::mpsc::RecvTimeoutError::Timeout) => {
                    if ctx.shutdown.load(Ordering::SeqCst) {
                        break;
                    }
                }
                Err(_) => break,
            }
        }
        handle.closed.store(true, Ordering::SeqCst);
        verif_hooks::install_thread(None);
        true
    }
}

pub fn install_global_hooks() {
    verif_hooks::install_global(Some(Arc::new(GlobalHooks {}) as Arc<dyn Hooks>));
}

pub fn fresh_dir(tag: &str) -> PathBuf {
    let n = WORLD_SEQ.fetch_add(1, Ordering::SeqCst);
    let d = scratch_root().join(format!("{}-{}", tag, n));
    let _ = std::fs::remove_dir_all(&d);
    std::fs::create_dir_all(&d).unwrap();
    d
}

pub struct Node {
    pub ctx: Arc<NodeCtx>,
    pub dbs: Arc<Databases>,
    pub repl_rx: Receiver<String>,
    pub sup_rx: Receiver<String>,
    pub addr: String,
}

impl Node {
    /// Mirrors main.rs::start_db up to load_all_dbs (see DESIGN 6.2).
    pub fn start(ctx: Arc<NodeCtx>, addr: &str, process_id: u128) -> Node {
        ctx.install();
        let (replication_sender, repl_rx): (Sender<String>, Receiver<String>) = channel(100);
        let (sup_sender, sup_rx): (Sender<String>, Receiver<String>) = channel(100);
        let keys_map = nundb::disk_ops::load_keys_map_from_disk();
        let is_oplog_valid = nundb::disk_ops::is_oplog_valid();
        if !is_oplog_valid {
            nundb::disk_ops::Oplog::clean_op_log_metadata_files();
        }
        // main.rs builds the node through db_ops::create_init_dbs (which stamps the wall-clock start time as
        // process id); the harness calls the same function and then sets the process id the scenario asks for
        let mut dbs = nundb::db_ops::create_init_dbs(USER.to_string(), PWD.to_string(), addr.to_string(), addr.to_string(), sup_sender, replication_sender, keys_map, is_oplog_valid);
        Arc::get_mut(&mut dbs).expect("a freshly created Databases has one owner").process_id = process_id;
        Databases::load_all_dbs(&dbs);
        REGISTRY.lock().unwrap().push((Arc::as_ptr(&dbs) as usize, ctx.clone()));
        Node {
            ctx,
            dbs,
            repl_rx,
            sup_rx,
            addr: addr.to_string(),
        }
    }

    pub fn new_single(tag: &str) -> Node {
        let ctx = NodeCtx::new(fresh_dir(tag), 1000);
        let n = Node::start(ctx, "n1:1", 1);
        n.dbs
            .node_state
            .store(ClusterRole::Primary as usize, Ordering::SeqCst);
        n
    }

    pub fn set_role(&self, r: ClusterRole) {
        self.dbs.node_state.store(r as usize, Ordering::SeqCst);
    }

    /// Drop queued replication / supervisor messages (single-node drivers do not run the loops).
    pub fn drain_queues(&mut self) -> (Vec<String>, Vec<String>) {
        let mut a = vec![];
        let mut b = vec![];
        while let Ok(Some(m)) = self.repl_rx.try_next() {
            a.push(m)
        }
        while let Ok(Some(m)) = self.sup_rx.try_next() {
            b.push(m)
        }
        (a, b)
    }

    pub fn run_snapshot_queue(&self) {
        self.ctx.install();
        nundb::disk_ops::snapshot_all_pendding_dbs(&self.dbs);
    }

    pub fn remove_dir(&self) {
        self.shutdown();
        let _ = std::fs::remove_dir_all(&self.ctx.dir);
    }

    /// release parked link threads and forget the node in the global registry
    pub fn shutdown(&self) {
        self.ctx.shutdown.store(true, Ordering::SeqCst);
        for l in self.ctx.links.lock().unwrap().iter() {
            l.close();
        }
        let id = Arc::as_ptr(&self.dbs) as usize;
        REGISTRY.lock().unwrap().retain(|(p, _)| *p != id);
    }

    /// wait until `n` outbound links have been handed over by the supervisor's link threads
    pub fn wait_links(&self, n: usize) -> bool {
        let deadline = std::time::Instant::now() + std::time::Duration::from_secs(10);
        let mut g = self.ctx.links.lock().unwrap();
        while g.len() < n {
            let now = std::time::Instant::now();
            if now >= deadline {
                return false;
            }
            g = self.ctx.links_cv.wait_timeout(g, deadline - now).unwrap().0;
        }
        true
    }
}

pub struct Session {
    pub client: Client,
    pub rx: Receiver<String>,
}

#[derive(Clone, Debug, PartialEq, Eq, Hash)]
pub struct Obs {
    pub resp: String,
    pub msgs: Vec<String>,
    pub panic: Option<String>,
}

pub fn resp_str(r: &Response) -> String {
    match r {
        Response::Value {
            key,
            value,
            version,
        } => format!("Value({},{},{})", key, value, version),
        Response::Ok {} => "Ok".to_string(),
        Response::Set { key, value } => format!("Set({},{})", key, value),
        Response::Error { msg } => format!("Error({})", msg),
        Response::VersionError {
            msg,
            key,
            old_version,
            version,
            ..
        } => format!("VersionError({},{},{},{})", msg, key, old_version, version),
    }
}

impl Session {
    pub fn new() -> Session {
        let (client, rx) = Client::new_empty_and_receiver();
        Session { client, rx }
    }

    pub fn drain(&mut self) -> Vec<String> {
        let mut v = vec![];
        while let Ok(Some(m)) = self.rx.try_next() {
            v.push(m)
        }
        v
    }

    pub fn exec(&mut self, node: &Node, line: &str) -> Obs {
        let dbs = node.dbs.clone();
        let client = &mut self.client;
        let r = catch_unwind(AssertUnwindSafe(|| {
            nundb::process_request::process_request(line, &dbs, client)
        }));
        let msgs = self.drain();
        match r {
            Ok(resp) => Obs {
                resp: resp_str(&resp),
                msgs,
                panic: None,
            },
            Err(e) => Obs {
                resp: "PANIC".to_string(),
                msgs,
                panic: Some(panic_msg(&e)),
            },
        }
    }

    /// what every transport does when the connection ends
    pub fn disconnect(&mut self, node: &Node) -> Obs {
        let o = self.exec(node, "unwatch-all");
        let dbs = node.dbs.clone();
        let client = &self.client;
        let r = catch_unwind(AssertUnwindSafe(|| client.left(&dbs)));
        match r {
            Ok(_) => o,
            Err(e) => Obs {
                resp: "PANIC".to_string(),
                msgs: o.msgs,
                panic: Some(panic_msg(&e)),
            },
        }
    }
}

pub fn panic_msg(e: &Box<dyn std::any::Any + Send>) -> String {
    if let Some(s) = e.downcast_ref::<&str>() {
        s.to_string()
    } else if let Some(s) = e.downcast_ref::<String>() {
        s.clone()
    } else {
        "non-string panic".to_string()
    }
}

thread_local! {
    pub static LAST_PANIC_LOC: std::cell::RefCell<Option<String>> = std::cell::RefCell::new(None);
}
pub static PANIC_COUNT: AtomicUsize = AtomicUsize::new(0);
pub static PANIC_LOG: Mutex<Vec<String>> = Mutex::new(Vec::new());

/// Silent panic hook recording location (used by every driver; panics are observed via catch_unwind).
pub fn install_panic_hook() {
    std::panic::set_hook(Box::new(|info| {
        let loc = info
            .location()
            .map(|l| format!("{}:{}", l.file(), l.line()))
            .unwrap_or_default();
        let _ = LAST_PANIC_LOC.try_with(|l| *l.borrow_mut() = Some(loc.clone()));
        PANIC_COUNT.fetch_add(1, Ordering::SeqCst);
        if let Ok(mut l) = PANIC_LOG.lock() {
            if l.len() < 1000 {
                let th = std::thread::current();
                l.push(format!(
                    "{} @ {} [{}]",
                    info.payload()
                        .downcast_ref::<&str>()
                        .map(|s| s.to_string())
                        .or_else(|| info.payload().downcast_ref::<String>().cloned())
                        .unwrap_or_default(),
                    loc,
                    th.name().unwrap_or("?")
                ));
            }
        }
    }));
}

pub fn take_panic_loc() -> Option<String> {
    LAST_PANIC_LOC.with(|l| l.borrow_mut().take())
}

/// Abstract implementation state of one database.
#[derive(Clone, Debug, PartialEq, Eq, Hash, PartialOrd, Ord)]
pub struct KeyDump {
    pub value: String,
    pub version: i32,
    pub state: u8,
    pub on_disk: bool,
    pub key_addr: u64,
    pub value_addr: u64,
    pub opp_id: u64,
}

pub type DbDump = BTreeMap<String, KeyDump>;

pub fn dump_db(db: &Database) -> DbDump {
    let m = match db.map.read() {
        Ok(g) => g,
        Err(p) => p.into_inner(),
    };
    let mut out = BTreeMap::new();
    for (k, v) in m.iter() {
        out.insert(
            k.clone(),
            KeyDump {
                value: v.value.clone(),
                version: v.version,
                state: v.state as u8,
                on_disk: v.state != ValueStatus::New,
                key_addr: v.key_disk_addr,
                value_addr: v.value_disk_addr,
                opp_id: v.opp_id,
            },
        );
    }
    out
}

pub fn dump_all(dbs: &Arc<Databases>) -> BTreeMap<String, DbDump> {
    let m = match dbs.map.read() {
        Ok(g) => g,
        Err(p) => p.into_inner(),
    };
    m.iter().map(|(k, d)| (k.clone(), dump_db(d))).collect()
}

/// live (non-tombstone) keys -> (value, version)
pub fn live_view(d: &DbDump) -> BTreeMap<String, (String, i32)> {
    d.iter()
        .filter(|(_, v)| v.state != ValueStatus::Deleted as u8)
        .map(|(k, v)| (k.clone(), (v.value.clone(), v.version)))
        .collect()
}

pub fn with_db<R>(dbs: &Arc<Databases>, name: &str, f: impl FnOnce(&Database) -> R) -> Option<R> {
    let m = match dbs.map.read() {
        Ok(g) => g,
        Err(p) => p.into_inner(),
    };
    m.get(name).map(f)
}

pub fn watcher_counts(db: &Database) -> BTreeMap<String, usize> {
    let w = match db.watchers.map.read() {
        Ok(g) => g,
        Err(p) => p.into_inner(),
    };
    w.iter().map(|(k, v)| (k.clone(), v.len())).collect()
}

/// rank-rename op ids so that keys are independent of absolute clock values
pub fn rank_opp_ids(d: &mut BTreeMap<String, DbDump>) {
    let mut ids: Vec<u64> = d
        .values()
        .flat_map(|db| db.values().map(|k| k.opp_id))
        .collect();
    ids.sort();
    ids.dedup();
    for db in d.values_mut() {
        for k in db.values_mut() {
            k.opp_id = ids.binary_search(&k.opp_id).unwrap() as u64;
        }
    }
}

pub fn dir_digest(dir: &std::path::Path) -> String {
    fn walk(p: &std::path::Path, base: &std::path::Path, out: &mut Vec<(String, Vec<u8>)>) {
        if let Ok(rd) = std::fs::read_dir(p) {
            for e in rd.flatten() {
                let path = e.path();
                if path.is_dir() {
                    walk(&path, base, out);
                } else {
                    let rel = path.strip_prefix(base).unwrap().to_str().unwrap().to_string();
                    out.push((rel, std::fs::read(&path).unwrap_or_default()));
                }
            }
        }
    }
    let mut v = vec![];
    walk(dir, dir, &mut v);
    v.sort();
    let mut h = crate::util::Fnv128::new();
    for (n, c) in v {
        h.write(n.as_bytes());
        h.write(&[0]);
        h.write(&(c.len() as u64).to_le_bytes());
        h.write(&c);
    }
    format!("{:032x}", h.finish())
}
