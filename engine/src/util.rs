//! small helpers: 128-bit FNV hash, permutations, timing
pub struct Fnv128 {
    a: u64,
    b: u64,
}
impl Fnv128 {
    pub fn new() -> Fnv128 {
        Fnv128 {
            a: 0xcbf29ce484222325,
            b: 0x9e3779b97f4a7c15,
        }
    }
    pub fn write(&mut self, bytes: &[u8]) {
        for &x in bytes {
            self.a ^= x as u64;
            self.a = self.a.wrapping_mul(0x100000001b3);
            self.b = (self.b ^ (x as u64).wrapping_add(0x632be59bd9b4e019))
                .wrapping_mul(0xff51afd7ed558ccd)
                .rotate_left(29);
        }
    }
    pub fn finish(&self) -> u128 {
        ((self.a as u128) << 64) | (self.b as u128)
    }
}

pub fn hash128(s: &str) -> u128 {
    let mut h = Fnv128::new();
    h.write(s.as_bytes());
    h.finish()
}

pub fn permutations(n: usize) -> Vec<Vec<usize>> {
    fn rec(cur: &mut Vec<usize>, used: &mut Vec<bool>, n: usize, out: &mut Vec<Vec<usize>>) {
        if cur.len() == n {
            out.push(cur.clone());
            return;
        }
        for i in 0..n {
            if !used[i] {
                used[i] = true;
                cur.push(i);
                rec(cur, used, n, out);
                cur.pop();
                used[i] = false;
            }
        }
    }
    let mut out = vec![];
    rec(&mut vec![], &mut vec![false; n], n, &mut out);
    out
}

pub fn env_u64(name: &str, default: u64) -> u64 {
    std::env::var(name)
        .ok()
        .and_then(|v| v.parse().ok())
        .unwrap_or(default)
}

pub fn workers() -> usize {
    env_u64("NUNMC_WORKERS", 0) as usize
}

/// the harness binary, for child processes (if the file was replaced by a rebuild while this
/// process runs, the path the kernel reports carries a " (deleted)" suffix: use the new file)
pub fn self_exe() -> std::path::PathBuf {
    let p = std::env::current_exe().unwrap_or_else(|_| std::path::PathBuf::from("/verif/target/debug/nunmc"));
    let s = p.to_string_lossy().to_string();
    match s.strip_suffix(" (deleted)") {
        Some(x) => std::path::PathBuf::from(x),
        None => p,
    }
}
