//! small helpers: 128-bit FNV hash, permutations, timing
pub struct Fnv128 {
    a: u64,
    b: u64,
}
impl Fnv128 {
    pub fn new() -> Fnv128 {
        Fnv128 {
            a: 0xcbf29ce484222325,
            b: 0x9e3779b97f4a7c15,
        }
    }
    pub fn write(&mut self, bytes: &[u8]) {
        for &x in bytes {
            self.a ^= x as u64;
            self.a = self.a.wrapping_mul(0x100000001b3);
            self.b = (self.b ^ (x as u64).wrapping_add(0x632be59bd9b4e019))
                .wrapping_mul(0xff51afd7ed558ccd)
                .rotate_left(29);
        }
    }
    pub fn finish(&self) -> u128 {
        ((self.a as u128) << 64) | (self.b as u128)
    }
}

pub fn hash128(s: &str) -> u128 {
    let mut h = Fnv128::new();
    h.write(s.as_bytes());
    h.finish()
}

pub fn permutations(n: usize) -> Vec<Vec<usize>> {
    fn rec(cur: &mut Vec<usize>, used: &mut Vec<bool>, n: usize, out: &mut Vec<Vec<usize>>) {
        if cur.len() == n {
            out.push(cur.clone());
            return;
        }
        for i in 0..n {
            if !used[i] {
                used[i] = true;
                cur.push(i);
                rec(cur, used, n, out);
                cur.pop();
                used[i] = false;
            }
        }
    }
    let mut out = vec![];
    rec(&mut vec![], &mut vec![false; n], n, &mut out);
    out
}

pub fn env_u64(name: &str, default: u64) -> u64 {
    std::env::var(name)
        .ok()
        .and_then(|v| v.parse().ok())
        .unwrap_or(default)
}

pub fn workers() -> usize {
    env_u64("NUNMC_WORKERS", 0) as usize
}

/// the harness binary, for child processes (if the file was replaced by a rebuild while this
/// process runs, the path the kernel reports carries a " (deleted)" suffix: use the new file)
pub fn self_exe() -> std::path::PathBuf {
    let p = std::env::current_exe().unwrap_or_else(|_| std::path::PathBuf::from("/verif/target/debug/nunmc"));
    let s = p.to_string_lossy().to_string();
    match s.strip_suffix(" (deleted)") {
        Some(x) => std::path::PathBuf::from(x),
        None => p,
    }
}

/// What the calling thread is about to hand to the code under test (scenario, crash position,
/// history). Each thread owns a 4 KiB slot, a shared mapping of a file in the scratch directory:
/// writing it is a memory copy, and the text survives the death of the process, so the parent
/// process can name the case if the code under test takes the whole process down (an allocation
/// failure aborts, it does not unwind).
pub fn set_context(s: &str) {
    use std::os::unix::io::AsRawFd;
    thread_local! {
        static SLOT: std::cell::Cell<*mut u8> = std::cell::Cell::new(std::ptr::null_mut());
    }
    static SEQ: std::sync::atomic::AtomicUsize = std::sync::atomic::AtomicUsize::new(0);
    let p = SLOT.with(|c| {
        let mut p = c.get();
        if p.is_null() {
            let root = crate::world::scratch_root();
            let _ = std::fs::create_dir_all(&root);
            let n = SEQ.fetch_add(1, std::sync::atomic::Ordering::SeqCst);
            if let Ok(f) = std::fs::OpenOptions::new().read(true).write(true).create(true).open(root.join(format!("ctx-{}", n))) {
                if f.set_len(4096).is_ok() {
                    let m = unsafe { libc::mmap(std::ptr::null_mut(), 4096, libc::PROT_READ | libc::PROT_WRITE, libc::MAP_SHARED, f.as_raw_fd(), 0) };
                    if m != libc::MAP_FAILED {
                        p = m as *mut u8;
                        c.set(p);
                    }
                }
            }
        }
        p
    });
    if p.is_null() {
        return;
    }
    let b = s.as_bytes();
    let n = b.len().min(4000);
    unsafe {
        std::ptr::copy_nonoverlapping(b.as_ptr(), p.add(8), n);
        std::ptr::write_volatile(p as *mut u64, n as u64);
    }
}

/// the context slots of a (dead) check process
pub fn read_contexts(scratch: &std::path::Path) -> Vec<String> {
    let mut out = vec![];
    if let Ok(rd) = std::fs::read_dir(scratch) {
        let mut names: Vec<_> = rd.flatten().map(|e| e.path()).filter(|p| p.file_name().map(|n| n.to_string_lossy().starts_with("ctx-")).unwrap_or(false)).collect();
        names.sort();
        for p in names {
            if let Ok(b) = std::fs::read(&p) {
                if b.len() >= 8 {
                    let n = u64::from_le_bytes(b[..8].try_into().unwrap()) as usize;
                    if n > 0 && 8 + n <= b.len() {
                        out.push(String::from_utf8_lossy(&b[8..8 + n]).to_string());
                    }
                }
            }
        }
    }
    out
}
