//! NET engine: an in-process cluster of real nodes. The real supervisor / replication-loop futures
//! are polled by hand, the real link threads are taken over (hook H7), every connection handler
//! runs on its own worker thread (so that the election wait loops, which sleep inside
//! process_request, park instead of blocking the explorer), and every queued message is one
//! transition.
use crate::loops::Loops;
use crate::world::*;
use nundb::bo::*;
use nundb::verif_hooks::{self, Hooks};
use std::collections::{BTreeMap, VecDeque};
use std::panic::Location;
use std::sync::atomic::{AtomicBool, Ordering};
use std::sync::{Arc, Condvar, Mutex};
use std::time::{Duration, Instant};

// ---------------------------------------------------------------------------------------------
// worker threads: one per connection context

#[derive(Clone, Debug, PartialEq)]
pub enum WState {
    Idle,
    Busy,
    Parked { site: String },
    Done { resp: String, msgs: Vec<String>, panic: Option<String> },
    Dead,
}

pub enum WCmd {
    /// take what other handlers pushed on this connection's channel (notifications, notices)
    Drain,
    Exec(String),
    /// what tcp_ops::handle_client does when the peer closes the connection
    Eof,
    /// run start_inital_election (the node's join thread)
    InitialElection,
    Quit,
}

pub struct WShared {
    pub st: Mutex<WState>,
    pub cv: Condvar,
    /// resume token: set by the explorer to let a parked thread continue
    pub go: Mutex<bool>,
    pub go_cv: Condvar,
    /// while set, sleeps at this site return at once (virtual time runs until the wait loop ends)
    pub fast_forward: Mutex<Option<String>>,
    pub quit: AtomicBool,
    pub sleeps: std::sync::atomic::AtomicU64,
}

pub struct Worker {
    pub name: String,
    pub shared: Arc<WShared>,
    tx: std::sync::mpsc::Sender<WCmd>,
    pub handle: Option<std::thread::JoinHandle<()>>,
}

struct WorkerHooks {
    inner: Arc<NodeCtx>,
    shared: Arc<WShared>,
}

impl Hooks for WorkerHooks {
    fn data_dir(&self) -> Option<String> {
        self.inner.data_dir()
    }
    fn now_nanos(&self) -> Option<u64> {
        self.inner.now_nanos()
    }
    fn order_keys(&self, keys: &mut Vec<(String, Value)>) {
        self.inner.order_keys(keys)
    }
    fn event(&self, n: &'static str, d: &str) {
        self.inner.event(n, d)
    }
    fn sleep(&self, _d: Duration, site: &'static Location<'static>) -> bool {
        let site = format!("election_ops.rs:{}", site.line());
        self.shared.sleeps.fetch_add(1, Ordering::SeqCst);
        if self.shared.quit.load(Ordering::SeqCst) {
            return true;
        }
        if self.shared.fast_forward.lock().unwrap().as_deref() == Some(site.as_str()) {
            return true;
        }
        // leaving a fast-forwarded loop: from here on park again
        *self.shared.fast_forward.lock().unwrap() = None;
        {
            let mut st = self.shared.st.lock().unwrap();
            *st = WState::Parked { site };
            self.shared.cv.notify_all();
        }
        let mut go = self.shared.go.lock().unwrap();
        while !*go && !self.shared.quit.load(Ordering::SeqCst) {
            let (g, _) = self.shared.go_cv.wait_timeout(go, Duration::from_millis(100)).unwrap();
            go = g;
        }
        *go = false;
        drop(go);
        *self.shared.st.lock().unwrap() = WState::Busy;
        true
    }
}

impl Worker {
    /// `server_side` = the connection is an inbound TCP connection of the node (gets the ok/error
    /// line after each command and runs the EOF sequence)
    pub fn spawn(name: &str, node: &Node, pre_auth: bool) -> Worker {
        let shared = Arc::new(WShared {
            st: Mutex::new(WState::Idle),
            cv: Condvar::new(),
            go: Mutex::new(false),
            go_cv: Condvar::new(),
            fast_forward: Mutex::new(None),
            quit: AtomicBool::new(false),
            sleeps: Default::default(),
        });
        let (tx, rx) = std::sync::mpsc::channel::<WCmd>();
        let dbs = node.dbs.clone();
        let ctx = node.ctx.clone();
        let sh = shared.clone();
        let handle = std::thread::Builder::new()
            .name(format!("w-{}", name))
            .spawn(move || {
                verif_hooks::install_thread(Some(Arc::new(WorkerHooks { inner: ctx, shared: sh.clone() }) as Arc<dyn Hooks>));
                let (mut client, mut crx) = Client::new_empty_and_receiver();
                if pre_auth {
                    client.auth.store(true, Ordering::SeqCst);
                }
                let drain = |crx: &mut futures::channel::mpsc::Receiver<String>| {
                    let mut v = vec![];
                    while let Ok(Some(m)) = crx.try_next() {
                        v.push(m)
                    }
                    v
                };
                while let Ok(cmd) = rx.recv() {
                    match cmd {
                        WCmd::Quit => break,
                        WCmd::Drain => {
                            let msgs = drain(&mut crx);
                            *sh.st.lock().unwrap() = WState::Done { resp: "DRAIN".into(), msgs, panic: None };
                            sh.cv.notify_all();
                        }
                        WCmd::Exec(line) => {
                            let r = std::panic::catch_unwind(std::panic::AssertUnwindSafe(|| nundb::process_request::process_request(&line, &dbs, &mut client)));
                            let mut msgs = drain(&mut crx);
                            let (resp, panic) = match r {
                                Ok(resp) => {
                                    // tcp_ops::handle_client: ok / error line after every command
                                    match &resp {
                                        Response::Error { msg } => msgs.push(format!("error {} \n", msg)),
                                        _ => msgs.push("ok \n".to_string()),
                                    }
                                    (resp_str(&resp), None)
                                }
                                Err(e) => ("PANIC".to_string(), Some(format!("{} at {:?}", panic_msg(&e), take_panic_loc()))),
                            };
                            *sh.st.lock().unwrap() = WState::Done { resp, msgs, panic };
                            sh.cv.notify_all();
                        }
                        WCmd::Eof => {
                            let r = std::panic::catch_unwind(std::panic::AssertUnwindSafe(|| {
                                nundb::process_request::process_request("unwatch-all", &dbs, &mut client);
                                let member = { client.cluster_member.lock().unwrap().clone() };
                                if let Some(m) = member {
                                    let line = match m.role {
                                        ClusterRole::Primary => format!("leave {}", m.name),
                                        _ => format!("replicate-leave {}", m.name),
                                    };
                                    // process_leave_request: a fresh authenticated client
                                    let (mut fake, _r) = Client::new_empty_and_receiver();
                                    fake.auth.store(true, Ordering::SeqCst);
                                    nundb::process_request::process_request(&line, &dbs, &mut fake);
                                }
                                client.left(&dbs);
                            }));
                            let panic = r.err().map(|e| format!("{} at {:?}", panic_msg(&e), take_panic_loc()));
                            *sh.st.lock().unwrap() = WState::Done { resp: "EOF".into(), msgs: vec![], panic };
                            sh.cv.notify_all();
                        }
                        WCmd::InitialElection => {
                            let d = dbs.clone();
                            let r = std::panic::catch_unwind(std::panic::AssertUnwindSafe(|| nundb::election_ops::start_inital_election(d)));
                            let panic = r.err().map(|e| format!("{} at {:?}", panic_msg(&e), take_panic_loc()));
                            *sh.st.lock().unwrap() = WState::Done { resp: "initial-election-done".into(), msgs: vec![], panic };
                            sh.cv.notify_all();
                        }
                    }
                }
                *sh.st.lock().unwrap() = WState::Dead;
                sh.cv.notify_all();
                verif_hooks::install_thread(None);
            })
            .unwrap();
        Worker { name: name.to_string(), shared, tx, handle: Some(handle) }
    }

    pub fn state(&self) -> WState {
        self.shared.st.lock().unwrap().clone()
    }

    fn wait_settled(&self) -> Result<WState, String> {
        let deadline = Instant::now() + Duration::from_secs(120);
        let mut st = self.shared.st.lock().unwrap();
        loop {
            match &*st {
                WState::Busy => {}
                other => return Ok(other.clone()),
            }
            let now = Instant::now();
            if now >= deadline {
                return Err(format!("worker {} did not settle within 120 s", self.name));
            }
            st = self.shared.cv.wait_timeout(st, Duration::from_millis(200)).unwrap().0;
        }
    }

    /// start a command; returns when the handler is done or parked in a sleep
    pub fn run(&self, cmd: WCmd) -> Result<WState, String> {
        *self.shared.st.lock().unwrap() = WState::Busy;
        self.tx.send(cmd).map_err(|_| format!("worker {} is gone", self.name))?;
        self.wait_settled()
    }

    /// resume a parked handler for one sleep (or, with fast_forward, until it leaves the loop)
    pub fn resume(&self, fast_forward: bool) -> Result<WState, String> {
        let site = match self.state() {
            WState::Parked { site } => site,
            other => return Err(format!("resume of a worker that is not parked: {:?}", other)),
        };
        *self.shared.fast_forward.lock().unwrap() = if fast_forward { Some(site) } else { None };
        *self.shared.st.lock().unwrap() = WState::Busy;
        {
            let mut go = self.shared.go.lock().unwrap();
            *go = true;
            self.shared.go_cv.notify_all();
        }
        self.wait_settled()
    }

    /// take the result of a finished command and make the worker idle again
    pub fn take_done(&self) -> Option<(String, Vec<String>, Option<String>)> {
        let mut st = self.shared.st.lock().unwrap();
        if let WState::Done { resp, msgs, panic } = st.clone() {
            *st = WState::Idle;
            return Some((resp, msgs, panic));
        }
        None
    }

    pub fn shutdown(&mut self) {
        self.shared.quit.store(true, Ordering::SeqCst);
        {
            let mut go = self.shared.go.lock().unwrap();
            *go = true;
            self.shared.go_cv.notify_all();
        }
        let _ = self.tx.send(WCmd::Quit);
        // a worker stuck in an election loop leaves it quickly once sleeps are free
        if let Some(h) = self.handle.take() {
            let t0 = Instant::now();
            while !h.is_finished() && t0.elapsed() < Duration::from_secs(5) {
                std::thread::sleep(Duration::from_millis(1));
            }
            if h.is_finished() {
                let _ = h.join();
            }
        }
    }
}

// ---------------------------------------------------------------------------------------------
// the cluster

pub struct NNode {
    pub node: Node,
    pub loops: Loops,
    pub repl_q: VecDeque<String>,
    pub sup_q: VecDeque<String>,
    pub alive: bool,
    /// handler threads parked in this node's election code may observe something new
    pub changed: bool,
    pub links_seen: usize,
    pub join_worker: Option<Worker>,
    /// the process is up (a node that is not started yet refuses connections)
    pub started: bool,
}

pub struct Link {
    pub from: usize,
    pub to: usize,
    pub handle: Arc<LinkHandle>,
    pub server: Worker,
    pub fwd: VecDeque<String>,
    pub back: VecDeque<String>,
    pub open: bool,
    pub delivered: u64,
    /// the opener died; the receiving node has not run its end-of-connection path yet
    pub eof_pending: bool,
}

pub struct ScriptClient {
    pub node: usize,
    pub worker: Worker,
    pub script: VecDeque<String>,
    pub eof_at_end: bool,
    pub done: bool,
    pub replies: Vec<(String, String, Vec<String>)>,
    /// everything that arrived on this session's channel so far (arbiter notices, notifications)
    pub inbox: Vec<String>,
    pub answered: usize,
}

impl ScriptClient {
    /// the oldest notice ("resolve <id> <db> <version> <key> <old> <value>") not answered yet
    pub fn next_notice(&self) -> Option<(u64, String, i32, String)> {
        self.inbox
            .iter()
            .filter_map(|m| {
                let p: Vec<&str> = m.trim().split(' ').collect();
                if p.len() >= 7 && p[0] == "resolve" {
                    Some((p[1].parse::<u64>().ok()?, p[2].to_string(), p[3].parse::<i32>().ok()?, p[4].to_string()))
                } else {
                    None
                }
            })
            .nth(self.answered)
    }
}

#[derive(Clone, Debug, PartialEq, Eq, PartialOrd, Ord, Hash)]
pub enum T {
    Sup(usize),
    Loop(usize),
    Deliver(usize, usize),
    Back(usize, usize),
    Client(usize),
    Wake(String),
    Timeout(String),
    Drop(usize),
    /// the peer at the receiving end of link (from, to) notices that the connection has ended
    Eof(usize, usize),
}

pub struct NetWorld {
    pub nodes: Vec<NNode>,
    pub links: Vec<Link>,
    pub clients: Vec<ScriptClient>,
    pub names: Vec<String>,
    pub problems: Vec<(String, String)>,
    pub counters: BTreeMap<String, u64>,
    pub steps: u64,
    /// per-link message log since the last reset (C14)
    pub traffic: Vec<(usize, usize, String)>,
    /// kill_node leaves the end-of-connection notices to T::Eof transitions
    pub lazy_eof: bool,
    /// nodes whose pending end-of-connection notices are listed last among the enabled transitions
    /// (the default schedule then lets everything else happen before such a node notices)
    pub eof_last: Vec<usize>,
    /// every line put on a link, in order: (link index, true = opener -> server, line); includes
    /// the handshake; compared with the real transport by the conformance stage (wire.rs)
    pub wire: Vec<(usize, bool, String)>,
}

/// prefix of traffic-log entries that are reply lines on an incoming connection (acks, ok, results),
/// as opposed to requests a node sends on its own outgoing link
pub const REPLY_MARK: &str = "<- ";

pub fn node_name(i: usize) -> String {
    format!("n{}:1", i + 1)
}

impl NetWorld {
    /// fresh nodes, nobody knows anybody; process ids ascending = n1 is the oldest
    pub fn new(n: usize, pids: &[u128]) -> NetWorld {
        NetWorld::new_clocked(n, pids, false)
    }

    /// shared_clock = all nodes read one logical clock (synchronised wall clocks: op ids of
    /// different nodes are comparable, as the catch-up protocol assumes)
    pub fn new_clocked(n: usize, pids: &[u128], shared_clock: bool) -> NetWorld {
        let mut nodes = vec![];
        let mut names = vec![];
        let shared = Arc::new(std::sync::atomic::AtomicU64::new(1_000_000_000_000));
        for i in 0..n {
            let ctx = if shared_clock {
                NodeCtx::with_clock(fresh_dir(&format!("net-n{}", i + 1)), shared.clone())
            } else {
                NodeCtx::new(fresh_dir(&format!("net-n{}", i + 1)), (i as u64 + 1) * 1_000_000_000_000)
            };
            ctx.virtual_sleep.store(true, Ordering::SeqCst);
            let node = Node::start(ctx, &node_name(i), pids[i]);
            let loops = Loops::new(&node);
            names.push(node_name(i));
            nodes.push(NNode { node, loops, repl_q: VecDeque::new(), sup_q: VecDeque::new(), alive: true, changed: false, links_seen: 0, join_worker: None, started: false });
        }
        NetWorld { nodes, links: vec![], clients: vec![], names, problems: vec![], counters: BTreeMap::new(), steps: 0, traffic: vec![], lazy_eof: false, eof_last: vec![], wire: vec![] }
    }

    pub fn idx(&self, name: &str) -> Option<usize> {
        self.names.iter().position(|n| n == name)
    }

    pub fn add_client(&mut self, node: usize, script: &[&str], eof_at_end: bool) -> usize {
        let w = Worker::spawn(&format!("c{}@n{}", self.clients.len(), node + 1), &self.nodes[node].node, false);
        self.clients.push(ScriptClient { node, worker: w, script: script.iter().map(|s| s.to_string()).collect(), eof_at_end, done: false, replies: vec![], inbox: vec![], answered: 0 });
        self.clients.len() - 1
    }

    fn problem(&mut self, clause: &str, detail: String) {
        if self.problems.len() < 50 {
            self.problems.push((clause.to_string(), detail));
        }
    }

    /// move everything the nodes queued into the harness-owned queues; adopt new links
    pub fn pump(&mut self) {
        for i in 0..self.nodes.len() {
            if !self.nodes[i].alive {
                continue;
            }
            let (a, b) = self.nodes[i].node.drain_queues();
            self.nodes[i].repl_q.extend(a);
            self.nodes[i].sup_q.extend(b);
            if let Some(d) = self.nodes[i].loops.dead() {
                let key = format!("loop-dead-{}", i);
                if !self.counters.contains_key(&key) {
                    self.counters.insert(key, 1);
                    self.problem("service-loop-died", format!("node {}: {}", self.names[i], d));
                }
            }
            // new outbound links handed over by the supervisor's link threads
            let handles: Vec<Arc<LinkHandle>> = self.nodes[i].node.ctx.links.lock().unwrap().clone();
            while self.nodes[i].links_seen < handles.len() {
                let h = handles[self.nodes[i].links_seen].clone();
                self.nodes[i].links_seen += 1;
                match self.idx(&h.peer) {
                    Some(to) if self.nodes[to].alive => {
                        // handshake of auth_on_replication
                        let mut fwd = VecDeque::new();
                        fwd.push_back(format!("auth {} {}", USER, PWD));
                        if h.is_primary {
                            fwd.push_back(format!("set-primary {}", h.self_addr));
                        } else {
                            self.nodes[i].node.ctx.install();
                            fwd.push_back(format!("set-secoundary {}", h.self_addr));
                            fwd.push_back(format!("replicate-since {} {}", h.self_addr, nundb::disk_ops::Oplog::last_op_time()));
                        }
                        for m in fwd.iter() {
                            self.wire.push((self.links.len(), true, m.clone()));
                        }
                        let server = Worker::spawn(&format!("n{}<-n{}#{}", to + 1, i + 1, self.links.len()), &self.nodes[to].node, false);
                        self.links.push(Link { from: i, to, handle: h, server, fwd, back: VecDeque::new(), open: true, delivered: 0, eof_pending: false });
                    }
                    _ => {
                        // connection refused: the link thread ends at once
                        h.close();
                    }
                }
            }
        }
        for ci in 0..self.clients.len() {
            if self.clients[ci].worker.state() == WState::Idle && self.nodes[self.clients[ci].node].alive {
                if self.clients[ci].worker.run(WCmd::Drain).is_ok() {
                    if let Some((_, msgs, _)) = self.clients[ci].worker.take_done() {
                        self.clients[ci].inbox.extend(msgs);
                    }
                }
            }
        }
        for li in 0..self.links.len() {
            if !self.links[li].open {
                continue;
            }
            let msgs = self.links[li].handle.drain();
            for m in msgs {
                let (f, t) = (self.links[li].from, self.links[li].to);
                self.traffic.push((f, t, m.clone()));
                self.wire.push((li, true, m.clone()));
                self.links[li].fwd.push_back(m);
            }
        }
    }

    fn message_transitions(&self) -> Vec<T> {
        let mut v = vec![];
        for (i, n) in self.nodes.iter().enumerate() {
            if !n.alive {
                continue;
            }
            if !n.sup_q.is_empty() {
                v.push(T::Sup(i));
            }
            if !n.repl_q.is_empty() {
                v.push(T::Loop(i));
            }
        }
        for l in self.links.iter() {
            if l.eof_pending && self.nodes[l.to].alive && l.server.state() == WState::Idle {
                v.push(T::Eof(l.from, l.to));
            }
            if !l.open {
                continue;
            }
            if !l.fwd.is_empty() && l.server.state() == WState::Idle {
                v.push(T::Deliver(l.from, l.to));
            }
            if !l.back.is_empty() {
                v.push(T::Back(l.from, l.to));
            }
        }
        v
    }

    fn parked(&self) -> Vec<(String, usize, String)> {
        let mut v = vec![];
        for l in self.links.iter() {
            if let WState::Parked { site } = l.server.state() {
                v.push((l.server.name.clone(), l.to, site));
            }
        }
        for c in self.clients.iter() {
            if let WState::Parked { site } = c.worker.state() {
                v.push((c.worker.name.clone(), c.node, site));
            }
        }
        for (i, n) in self.nodes.iter().enumerate() {
            if let Some(w) = &n.join_worker {
                if let WState::Parked { site } = w.state() {
                    v.push((w.name.clone(), i, site));
                }
            }
        }
        v
    }

    /// transitions enabled in this state, in canonical order
    pub fn enabled(&self, with_clients: bool) -> Vec<T> {
        let mut v = self.enabled_inner(with_clients);
        if !self.eof_last.is_empty() {
            let (late, mut rest): (Vec<T>, Vec<T>) = v.into_iter().partition(|t| matches!(t, T::Eof(_, to) if self.eof_last.contains(to)));
            rest.extend(late);
            v = rest;
        }
        v
    }

    fn enabled_inner(&self, with_clients: bool) -> Vec<T> {
        let mut v = self.message_transitions();
        if with_clients {
            for (i, c) in self.clients.iter().enumerate() {
                if !c.done && c.worker.state() == WState::Idle && self.nodes[c.node].alive {
                    if c.script.front().map(|l| l.starts_with("<resolve-next")).unwrap_or(false) && c.next_notice().is_none() {
                        continue;
                    }
                    v.push(T::Client(i));
                }
            }
        }
        // the short `join` connections a starting node opens are protocol traffic too
        let msgs_pending = !self.message_transitions().is_empty() || self.clients.iter().any(|c| c.eof_at_end && !c.done && self.nodes[c.node].alive && c.worker.state() == WState::Idle);
        for (name, node, site) in self.parked() {
            if site_is_initial_sleep(&site) {
                // the 1 s start-up sleep is as long as the election timeout: messages are faster
                if !msgs_pending {
                    v.push(T::Timeout(name));
                }
                continue;
            }
            // the 100 ms grace sleep may end at any time; a poll loop iteration is worth taking
            // when the node's state changed since the waiter last looked
            if self.nodes[node].changed || site_is_fixed_sleep(&site) {
                v.push(T::Wake(name.clone()));
            }
            if !msgs_pending && !site_is_fixed_sleep(&site) {
                // a timer runs out only when no message can be delivered any more
                v.push(T::Timeout(name));
            }
        }
        v
    }

    fn worker_by_name(&self, name: &str) -> Option<&Worker> {
        for l in self.links.iter() {
            if l.server.name == name {
                return Some(&l.server);
            }
        }
        for c in self.clients.iter() {
            if c.worker.name == name {
                return Some(&c.worker);
            }
        }
        for n in self.nodes.iter() {
            if let Some(w) = &n.join_worker {
                if w.name == name {
                    return Some(w);
                }
            }
        }
        None
    }

    /// after a handler on `name` finished: route its output
    fn collect_worker(&mut self, name: &str) {
        // links
        for li in 0..self.links.len() {
            if self.links[li].server.name == name {
                if let Some((_resp, msgs, panic)) = self.links[li].server.take_done() {
                    if let Some(p) = panic {
                        let (f, t) = (self.links[li].from, self.links[li].to);
                        self.problem("handler-panic", format!("connection n{}->n{}: {}", f + 1, t + 1, p));
                    }
                    let (f, t) = (self.links[li].from, self.links[li].to);
                    for m in msgs {
                        // what the handler wrote goes back over the same connection
                        for line in m.split('\n') {
                            if !line.trim().is_empty() {
                                // REPLY_MARK: written back on the connection the command came in on
                                self.traffic.push((t, f, format!("{}{}", REPLY_MARK, line.trim())));
                                self.wire.push((li, false, line.trim().to_string()));
                                self.links[li].back.push_back(line.trim().to_string());
                            }
                        }
                    }
                }
                return;
            }
        }
        for ci in 0..self.clients.len() {
            if self.clients[ci].worker.name == name {
                if let Some((resp, msgs, panic)) = self.clients[ci].worker.take_done() {
                    if let Some(p) = panic {
                        self.problem("handler-panic", format!("client {}: {}", name, p));
                    }
                    self.clients[ci].replies.push(("".into(), resp, msgs));
                }
                return;
            }
        }
        for ni in 0..self.nodes.len() {
            let is = self.nodes[ni].join_worker.as_ref().map(|w| w.name == name).unwrap_or(false);
            if is {
                if let Some((_r, _m, panic)) = self.nodes[ni].join_worker.as_ref().unwrap().take_done() {
                    if let Some(p) = panic {
                        self.problem("handler-panic", format!("join thread of {}: {}", self.names[ni], p));
                    }
                }
                return;
            }
        }
    }

    pub fn apply(&mut self, t: &T) -> Result<(), String> {
        self.steps += 1;
        match t {
            T::Sup(i) => {
                let m = self.nodes[*i].sup_q.pop_front().ok_or("empty sup queue")?;
                let (loops, node) = {
                    let n = &mut self.nodes[*i];
                    (&mut n.loops, &n.node)
                };
                loops.feed_sup(node, m);
                self.nodes[*i].changed = true;
            }
            T::Loop(i) => {
                let m = self.nodes[*i].repl_q.pop_front().ok_or("empty repl queue")?;
                let (loops, node) = {
                    let n = &mut self.nodes[*i];
                    (&mut n.loops, &n.node)
                };
                loops.feed_repl(node, m);
                self.nodes[*i].changed = true;
            }
            T::Deliver(a, b) => {
                let li = self.links.iter().position(|l| l.open && l.from == *a && l.to == *b && !l.fwd.is_empty()).ok_or("no such link")?;
                let m = self.links[li].fwd.pop_front().unwrap();
                self.links[li].delivered += 1;
                let name = self.links[li].server.name.clone();
                self.links[li].server.run(WCmd::Exec(m))?;
                self.nodes[*b].changed = true;
                self.collect_worker(&name);
            }
            T::Back(a, b) => {
                let li = self.links.iter().position(|l| l.open && l.from == *a && l.to == *b && !l.back.is_empty()).ok_or("no such link")?;
                let m = self.links[li].back.pop_front().unwrap();
                // start_replication's reader: "ok" is skipped, everything else is a request
                if m.trim() != "ok" {
                    if let Err(e) = self.links[li].handle.deliver(&m) {
                        self.problem("handler-panic", format!("link n{}->n{} reader on `{}`: {}", a + 1, b + 1, m, e));
                    }
                    self.nodes[*a].changed = true;
                }
            }
            T::Client(ci) => {
                let line = match self.clients[*ci].script.pop_front() {
                    Some(l) => l,
                    None => return Err("client script empty".into()),
                };
                let name = self.clients[*ci].worker.name.clone();
                let node = self.clients[*ci].node;
                if line == "<eof>" {
                    self.clients[*ci].worker.run(WCmd::Eof)?;
                } else if let Some(val) = line.strip_prefix("<resolve-next ") {
                    // the arbiter answers the oldest open notice, echoing its op id and version
                    let (id, db, ver, key) = self.clients[*ci].next_notice().ok_or("no notice to answer")?;
                    self.clients[*ci].answered += 1;
                    let cmd = format!("resolve {} {} {} {} {}", id, db, key, ver, val.trim_end_matches('>'));
                    self.clients[*ci].worker.run(WCmd::Exec(cmd))?;
                } else {
                    self.clients[*ci].worker.run(WCmd::Exec(line.clone()))?;
                }
                if self.clients[*ci].script.is_empty() {
                    self.clients[*ci].done = true;
                }
                self.nodes[node].changed = true;
                self.collect_worker(&name);
                if let Some(last) = self.clients[*ci].replies.last_mut() {
                    last.0 = line;
                }
            }
            T::Wake(name) | T::Timeout(name) => {
                let ff = matches!(t, T::Timeout(_));
                let node = self.parked().iter().find(|p| &p.0 == name).map(|p| p.1);
                let w = self.worker_by_name(name).ok_or("no such worker")?;
                w.resume(ff)?;
                if let Some(n) = node {
                    // it has seen the current state now
                    self.nodes[n].changed = false;
                }
                self.collect_worker(name);
            }
            T::Drop(i) => {
                self.kill_node(*i)?;
            }
            T::Eof(f, t) => {
                let li = self.links.iter().position(|l| l.from == *f && l.to == *t && l.eof_pending).ok_or("no pending end-of-connection on that link")?;
                self.links[li].eof_pending = false;
                let name = self.links[li].server.name.clone();
                self.links[li].server.run(WCmd::Eof)?;
                self.nodes[*t].changed = true;
                self.collect_worker(&name);
            }
        }
        self.pump();
        Ok(())
    }

    /// node i dies: its outbound links close (peers see EOF on those connections), its inbound
    /// connections die with it, and links of peers towards it break
    pub fn kill_node(&mut self, i: usize) -> Result<(), String> {
        self.kill_node_noticed(i, false)
    }

    /// the node dies; its peers notice the broken connections one after the other, in link order
    /// or (reverse = true) in the opposite order
    /// the node dies; every survivor notices the broken connection in a transition of its own
    /// (T::Eof), at any later point of the exploration
    pub fn kill_node_lazily(&mut self, i: usize) -> Result<(), String> {
        self.lazy_eof = true;
        let r = self.kill_node_noticed(i, false);
        self.lazy_eof = false;
        r
    }

    pub fn kill_node_noticed(&mut self, i: usize, reverse: bool) -> Result<(), String> {
        self.nodes[i].alive = false;
        self.nodes[i].repl_q.clear();
        self.nodes[i].sup_q.clear();
        let order: Vec<usize> = if reverse { (0..self.links.len()).rev().collect() } else { (0..self.links.len()).collect() };
        for li in order {
            if !self.links[li].open {
                continue;
            }
            if self.links[li].from == i {
                // peer `to` sees EOF on the connection opened by i
                self.links[li].open = false;
                self.links[li].handle.close();
                let to = self.links[li].to;
                if self.lazy_eof {
                    self.links[li].eof_pending = self.nodes[to].alive;
                    continue;
                }
                if self.nodes[to].alive && self.links[li].server.state() == WState::Idle {
                    let name = self.links[li].server.name.clone();
                    self.links[li].server.run(WCmd::Eof)?;
                    self.nodes[to].changed = true;
                    self.collect_worker(&name);
                }
            } else if self.links[li].to == i {
                // the peer's outbound link to i breaks: its link thread ends
                self.links[li].open = false;
                self.links[li].handle.close();
            }
        }
        // the peers' link threads run their end-of-link code (a primary forgets the member):
        // wait for it instead of guessing a delay, so that the world stays deterministic
        let dead_name = self.names[i].clone();
        for li in 0..self.links.len() {
            if self.links[li].to == i && self.links[li].handle.is_primary {
                let from = self.links[li].from;
                if !self.nodes[from].alive {
                    continue;
                }
                let t0 = Instant::now();
                while self.nodes[from].node.dbs.has_cluster_memeber(&dead_name) && t0.elapsed() < Duration::from_secs(5) {
                    std::thread::sleep(Duration::from_micros(200));
                }
            }
        }
        self.pump();
        Ok(())
    }

    pub fn quiescent(&self) -> bool {
        self.message_transitions().is_empty() && self.parked().is_empty() && self.clients.iter().all(|c| c.done || !self.nodes[c.node].alive)
    }

    /// run with a fixed policy (first enabled transition) until nothing is enabled
    pub fn run_to_quiescence(&mut self, max_steps: usize) -> Result<usize, String> {
        self.pump();
        let mut n = 0;
        loop {
            let en = self.enabled(true);
            if en.is_empty() {
                return Ok(n);
            }
            if n >= max_steps {
                return Err(format!("not quiescent after {} steps; enabled {:?}", max_steps, en));
            }
            self.apply(&en[0])?;
            n += 1;
        }
    }

    /// a fair schedule: always the transition that has been enabled for the longest time
    /// (ties: canonical order).  Ok(steps) at quiescence, Err(steps) when the budget ran out.
    pub fn run_fair(&mut self, max_steps: usize) -> Result<Result<usize, usize>, String> {
        let mut unused = vec![];
        self.run_fair_traced(max_steps, &mut unused)
    }

    /// as run_fair; the transitions taken are appended to `trace`
    pub fn run_fair_traced(&mut self, max_steps: usize, trace: &mut Vec<T>) -> Result<Result<usize, usize>, String> {
        self.pump();
        let mut since: Vec<(T, usize)> = vec![];
        let mut n = 0;
        loop {
            let en = self.enabled(true);
            if en.is_empty() {
                return Ok(Ok(n));
            }
            if n >= max_steps {
                return Ok(Err(n));
            }
            since.retain(|(t, _)| en.contains(t));
            for t in en.iter() {
                if !since.iter().any(|(x, _)| x == t) {
                    since.push((t.clone(), n));
                }
            }
            let pick = since.iter().min_by_key(|(_, k)| *k).map(|(t, _)| t.clone()).unwrap();
            since.retain(|(t, _)| *t != pick);
            self.apply(&pick)?;
            trace.push(pick);
            n += 1;
        }
    }

    pub fn role(&self, i: usize) -> ClusterRole {
        self.nodes[i].node.dbs.get_role()
    }

    pub fn members(&self, i: usize) -> Vec<String> {
        let cs = self.nodes[i].node.dbs.cluster_state.lock().unwrap();
        let m = cs.members.lock().unwrap();
        let mut v: Vec<String> = m.iter().map(|(k, v)| format!("{}:{}:{}", k, v.role, if v.sender.is_some() { "c" } else { "-" })).collect();
        v.sort();
        v
    }

    /// canonical key of the whole world (op ids rank-renamed per node)
    pub fn key(&self) -> String {
        let mut s = String::new();
        for (i, n) in self.nodes.iter().enumerate() {
            if !n.alive {
                s.push_str(&format!("[n{} dead]", i + 1));
                continue;
            }
            let dbs = &n.node.dbs;
            let all: BTreeMap<String, BTreeMap<String, (String, i32, u8)>> = dump_all(dbs).into_iter().map(|(d, m)| (d, m.into_iter().map(|(k, v)| (k, (v.value, v.version, v.state))).collect())).collect();
            let pending: BTreeMap<u64, (usize, usize, Vec<(String, bool)>)> = dbs
                .pending_opps
                .read()
                .unwrap()
                .iter()
                .map(|(id, m)| {
                    let mut r: Vec<(String, bool)> = m.replications.lock().unwrap().iter().map(|(k, v)| (k.clone(), *v)).collect();
                    r.sort();
                    (*id, (m.count_replication(), m.count_acknowledged(), r))
                })
                .collect();
            s.push_str(&format!("[n{} {} {:?} {:?} pend={:?} rq={:?} sq={:?} ch={}]", i + 1, dbs.get_role(), self.members(i), all, pending, n.repl_q, n.sup_q, n.changed && !self.parked().is_empty()));
        }
        for l in self.links.iter() {
            if l.open {
                s.push_str(&format!("[{}>{} f={:?} b={:?} {:?}]", l.from + 1, l.to + 1, l.fwd, l.back, l.server.state()));
            }
        }
        for c in self.clients.iter() {
            s.push_str(&format!("[c@{} left={} {:?} inbox={:?} ans={}]", c.node + 1, c.script.len(), c.worker.state(), c.inbox, c.answered));
        }
        for n in self.nodes.iter() {
            if let Some(w) = &n.join_worker {
                s.push_str(&format!("[j {:?}]", w.state()));
            }
        }
        canon_ids(&s)
    }

    pub fn shutdown(mut self) {
        for n in self.nodes.iter() {
            n.node.ctx.shutdown.store(true, Ordering::SeqCst);
        }
        for l in self.links.iter_mut() {
            l.handle.close();
            l.server.shutdown();
        }
        for c in self.clients.iter_mut() {
            c.worker.shutdown();
        }
        for n in self.nodes.iter_mut() {
            if let Some(w) = n.join_worker.as_mut() {
                w.shutdown();
            }
            n.node.remove_dir();
        }
    }
}

pub fn site_is_fixed_sleep(site: &str) -> bool {
    // election_ops.rs: the 1 s initial sleep and the 100 ms grace sleep are not poll loops
    FIXED_SLEEP_LINES.lock().unwrap().iter().any(|l| site.ends_with(&format!(":{}", l)))
}

pub static FIXED_SLEEP_LINES: Mutex<Vec<u32>> = Mutex::new(Vec::new());
pub static INITIAL_SLEEP_LINES: Mutex<Vec<u32>> = Mutex::new(Vec::new());

pub fn site_is_initial_sleep(site: &str) -> bool {
    INITIAL_SLEEP_LINES.lock().unwrap().iter().any(|l| site.ends_with(&format!(":{}", l)))
}

/// find the line numbers of the two fixed sleeps in /repo's election_ops.rs (they move with edits)
pub fn init_sleep_sites() {
    let src = std::fs::read_to_string("/repo/src/lib/election_ops.rs").unwrap_or_default();
    let mut v = vec![];
    let mut init = vec![];
    for (i, line) in src.lines().enumerate() {
        if line.contains("thread::sleep") && line.contains("from_millis(1000)") {
            init.push(i as u32 + 1);
        } else if line.contains("thread::sleep") && line.contains("from_millis(100)") {
            v.push(i as u32 + 1);
        }
    }
    *FIXED_SLEEP_LINES.lock().unwrap() = v;
    *INITIAL_SLEEP_LINES.lock().unwrap() = init;
}

/// rename every op id (numbers >= 10^12, the per-node logical clocks) by its rank among the ids
/// of the same node that occur in the text
pub fn canon_ids(s: &str) -> String {
    let bytes = s.as_bytes();
    let mut ids: Vec<u64> = vec![];
    let mut i = 0;
    while i < bytes.len() {
        if bytes[i].is_ascii_digit() {
            let st = i;
            while i < bytes.len() && bytes[i].is_ascii_digit() {
                i += 1;
            }
            if i - st >= 13 && i - st <= 19 {
                if let Ok(n) = s[st..i].parse::<u64>() {
                    ids.push(n);
                }
            }
        } else {
            i += 1;
        }
    }
    ids.sort();
    ids.dedup();
    let mut out = String::with_capacity(s.len());
    let mut i = 0;
    while i < bytes.len() {
        if bytes[i].is_ascii_digit() {
            let st = i;
            while i < bytes.len() && bytes[i].is_ascii_digit() {
                i += 1;
            }
            let tok = &s[st..i];
            if i - st >= 13 && i - st <= 19 {
                if let Ok(n) = tok.parse::<u64>() {
                    let node = n / 1_000_000_000_000;
                    let rank = ids.iter().filter(|x| **x / 1_000_000_000_000 == node && **x < n).count();
                    out.push_str(&format!("#{}.{}", node, rank));
                    continue;
                }
            }
            out.push_str(tok);
        } else {
            // bytes of multi-byte chars are copied as they are
            let ch_len = s[i..].chars().next().map(|c| c.len_utf8()).unwrap_or(1);
            out.push_str(&s[i..i + ch_len]);
            i += ch_len;
        }
    }
    out
}

/// Bring up an n-node cluster through the real join path with a fixed delivery policy and check
/// that it is settled (n1 primary, the others secondary, everybody knows everybody).
pub fn settled_cluster(n: usize) -> Result<NetWorld, String> {
    settled_cluster_clocked(n, false)
}

pub fn settled_cluster_clocked(n: usize, shared_clock: bool) -> Result<NetWorld, String> {
    let pids: Vec<u128> = (0..n).map(|i| 100 + i as u128).collect();
    let mut w = NetWorld::new_clocked(n, &pids, shared_clock);
    // n1 starts alone: its join thread finds nobody and wins
    let jw = Worker::spawn("join-n1", &w.nodes[0].node, false);
    w.nodes[0].started = true;
    w.nodes[0].join_worker = Some(jw);
    w.nodes[0].join_worker.as_ref().unwrap().run(WCmd::InitialElection)?;
    w.pump();
    w.run_to_quiescence(2000)?;
    for i in 1..n {
        w.nodes[i].started = true;
        // node i starts: ask_to_join_all_replicas = a short connection to every peer in address order
        for p in 0..i {
            let c = w.add_client(p, &[&format!("auth {} {}", USER, PWD), &format!("join {}", node_name(i)), "<eof>"], true);
            let _ = c;
            w.run_to_quiescence(5000)?;
        }
        let jw = Worker::spawn(&format!("join-n{}", i + 1), &w.nodes[i].node, false);
        w.nodes[i].join_worker = Some(jw);
        w.nodes[i].join_worker.as_ref().unwrap().run(WCmd::InitialElection)?;
        w.pump();
        w.run_to_quiescence(5000)?;
    }
    // settled?
    if w.role(0) != ClusterRole::Primary {
        return Err(format!("bootstrap: n1 is {}", w.role(0)));
    }
    for i in 1..n {
        if w.role(i) != ClusterRole::Secoundary {
            return Err(format!("bootstrap: n{} is {} (members {:?})", i + 1, w.role(i), w.members(i)));
        }
    }
    w.clients.retain(|c| !c.done);
    w.traffic.clear();
    Ok(w)
}

// ---------------------------------------------------------------------------------------------
// explicit-state exploration (stateless by replay, visited set on the canonical world key)

pub struct NetCfg {
    pub max_states: usize,
    pub max_path: usize,
    pub budget: Duration,
    pub workers: usize,
    /// false: depth first.  true: iterative deviation bounding - the default schedule (always the
    /// first enabled transition) first, then every schedule that departs from it once, then twice, ...
    pub by_deviations: bool,
}

#[derive(Default, Debug, Clone)]
pub struct NetStats {
    pub states: u64,
    pub transitions: u64,
    pub replays: u64,
    pub quiescent_states: u64,
    pub max_path: usize,
    pub cap: Option<String>,
    pub cycles: u64,
    /// branches that reached max_path and were finished with the fair schedule instead of being explored further
    pub paths_finished_fairly: u64,
    /// with by_deviations: every schedule with at most this many departures from the default one was explored
    pub deviations_completed: Option<usize>,
}

/// steps granted to the fair schedule when a branch is cut at max_path (fair runs of the largest
/// configuration end within a few hundred steps)
pub const FAIR_TAIL_STEPS: usize = 4000;

pub struct NetFinding {
    pub clause: String,
    pub detail: String,
    pub path: Vec<T>,
}

/// `mk` builds the start world (e.g. a settled cluster with scripted clients added).
/// `on_state(world, path)` is evaluated in every new state, `on_quiescent` in every state without
/// enabled transitions. Both return (clause, detail) findings.
pub fn explore_net(
    mk: &(dyn Fn() -> Result<NetWorld, String> + Sync),
    on_state: &(dyn Fn(&NetWorld, &[T]) -> Vec<(String, String)> + Sync),
    on_quiescent: &(dyn Fn(&NetWorld, &[T]) -> Vec<(String, String)> + Sync),
    cfg: &NetCfg,
) -> Result<(NetStats, Vec<NetFinding>), String> {
    let start = Instant::now();
    let visited: Mutex<std::collections::HashSet<u128>> = Mutex::new(Default::default());
    // work items by number of deviations (non-default choices) in the prefix; depth first uses bucket 0 only
    let stack: Mutex<Vec<Vec<Vec<usize>>>> = Mutex::new(vec![vec![vec![]]]);
    let active = std::sync::atomic::AtomicUsize::new(0);
    let stats: Mutex<NetStats> = Mutex::new(NetStats::default());
    let findings: Mutex<Vec<NetFinding>> = Mutex::new(vec![]);
    let fatal: Mutex<Option<String>> = Mutex::new(None);
    let workers = if cfg.workers == 0 { std::thread::available_parallelism().map(|n| n.get()).unwrap_or(4) } else { cfg.workers };
    if cfg.by_deviations {
        // before anything else: the fair schedule (oldest enabled transition first) from the
        // start state; its quiet state is judged like any other
        let mut w = mk()?;
        w.pump();
        let mut trace: Vec<T> = vec![];
        let r = w.run_fair_traced(FAIR_TAIL_STEPS, &mut trace);
        let mut st = stats.lock().unwrap();
        st.replays += 1;
        match r {
            Err(e) => {
                w.shutdown();
                return Err(format!("{} ; on the fair schedule after {:?}", e, path_str(&trace)));
            }
            Ok(Ok(_)) => {
                st.quiescent_states += 1;
                st.max_path = st.max_path.max(trace.len());
                for (clause, detail) in w.problems.drain(..) {
                    findings.lock().unwrap().push(NetFinding { clause, detail, path: trace.clone() });
                }
                for (clause, detail) in on_quiescent(&w, &trace) {
                    findings.lock().unwrap().push(NetFinding { clause, detail, path: trace.clone() });
                }
            }
            Ok(Err(n)) => {
                findings.lock().unwrap().push(NetFinding { clause: "no-quiescence-under-fair-schedule".into(), detail: format!("the fair schedule (oldest enabled transition first) ran {} steps from the start state without the cluster going quiet; enabled {:?}", n, w.enabled(true)), path: trace.clone() });
            }
        }
        drop(st);
        w.shutdown();
    }
    std::thread::scope(|s| {
        for _ in 0..workers {
            s.spawn(|| loop {
                if fatal.lock().unwrap().is_some() || stats.lock().unwrap().cap.is_some() {
                    break;
                }
                let item = {
                    let mut st = stack.lock().unwrap();
                    let it = st.iter_mut().find(|b| !b.is_empty()).and_then(|b| b.pop());
                    if it.is_some() {
                        active.fetch_add(1, Ordering::SeqCst);
                    }
                    it
                };
                let prefix = match item {
                    Some(p) => p,
                    None => {
                        if active.load(Ordering::SeqCst) == 0 {
                            break;
                        }
                        std::thread::sleep(Duration::from_millis(1));
                        continue;
                    }
                };
                let res = (|| -> Result<(), String> {
                    if start.elapsed() > cfg.budget {
                        stats.lock().unwrap().cap = Some(format!("time budget {:?}", cfg.budget));
                        return Ok(());
                    }
                    let mut w = mk()?;
                    w.pump();
                    let mut path: Vec<T> = vec![];
                    let mut own_keys: Vec<u128> = vec![];
                    // enabled sets of the states on this path (for the fairness test of cycles)
                    let mut own_enabled: Vec<Vec<T>> = vec![];
                    stats.lock().unwrap().replays += 1;
                    // replay the prefix
                    for &c in prefix.iter() {
                        let en = w.enabled(true);
                        if c >= en.len() {
                            let r = Err(format!("replay divergence: choice {} of {:?} at step {} (nondeterminism)", c, en, path.len()));
                            w.shutdown();
                            return r;
                        }
                        let t = en[c].clone();
                        own_enabled.push(en.clone());
                        w.apply(&t).map_err(|e| format!("{} ; while replaying {:?} after {:?}", e, t, path_str(&path)))?;
                        path.push(t);
                        own_keys.push(crate::util::hash128(&w.key()));
                    }
                    let mut choices = prefix.clone();
                    // is the state the prefix leads to new?
                    let k0 = crate::util::hash128(&w.key());
                    let fresh = visited.lock().unwrap().insert(k0);
                    if !fresh && !prefix.is_empty() {
                        w.shutdown();
                        return Ok(());
                    }
                    loop {
                        {
                            let mut st = stats.lock().unwrap();
                            st.states += 1;
                            st.max_path = st.max_path.max(path.len());
                            if st.states as usize >= cfg.max_states {
                                st.cap = Some(format!("state cap {}", cfg.max_states));
                            }
                        }
                        for (clause, detail) in on_state(&w, &path) {
                            findings.lock().unwrap().push(NetFinding { clause, detail, path: path.clone() });
                        }
                        for (clause, detail) in w.problems.drain(..) {
                            findings.lock().unwrap().push(NetFinding { clause, detail, path: path.clone() });
                        }
                        let en = w.enabled(true);
                        if en.is_empty() {
                            stats.lock().unwrap().quiescent_states += 1;
                            for (clause, detail) in on_quiescent(&w, &path) {
                                findings.lock().unwrap().push(NetFinding { clause, detail, path: path.clone() });
                            }
                            break;
                        }
                        if path.len() >= cfg.max_path {
                            // A schedule this long has usually starved somebody (a message held back
                            // while others overtake it again and again), which the property's timing
                            // premise excludes.  The branch is not explored further; instead it is
                            // finished with the fair schedule (oldest enabled transition first):
                            // that must reach a quiet state, which is then judged like any other.
                            stats.lock().unwrap().paths_finished_fairly += 1;
                            match w.run_fair(FAIR_TAIL_STEPS)? {
                                Ok(_) => {
                                    stats.lock().unwrap().quiescent_states += 1;
                                    for (clause, detail) in w.problems.drain(..) {
                                        findings.lock().unwrap().push(NetFinding { clause, detail, path: path.clone() });
                                    }
                                    for (clause, detail) in on_quiescent(&w, &path) {
                                        findings.lock().unwrap().push(NetFinding { clause, detail: format!("{} (after the recorded {} steps the run was finished with the fair schedule)", detail, path.len()), path: path.clone() });
                                    }
                                }
                                Err(n) => {
                                    findings.lock().unwrap().push(NetFinding { clause: "no-quiescence-under-fair-schedule".into(), detail: format!("after {} explored steps the fair schedule (oldest enabled transition first) ran {} more steps without the cluster going quiet; enabled {:?}", path.len(), n, w.enabled(true)), path: path.clone() });
                                }
                            }
                            break;
                        }
                        {
                            let mut st = stack.lock().unwrap();
                            let bucket = if cfg.by_deviations { choices.iter().filter(|c| **c != 0).count() + 1 } else { 0 };
                            while st.len() <= bucket {
                                st.push(vec![]);
                            }
                            for alt in (1..en.len()).rev() {
                                let mut p = choices.clone();
                                p.push(alt);
                                st[bucket].push(p);
                            }
                        }
                        let t = en[0].clone();
                        own_enabled.push(en.clone());
                        w.apply(&t).map_err(|e| format!("{} ; while taking {:?} after {:?}", e, t, path_str(&path)))?;
                        stats.lock().unwrap().transitions += 1;
                        path.push(t);
                        choices.push(0);
                        let k = crate::util::hash128(&w.key());
                        // own_keys[i] is the state after path[i]; the state before path[0] is the start
                        let first = if prefix.is_empty() && k == k0 { Some(0) } else { own_keys.iter().position(|x| *x == k).map(|i| i + 1) };
                        if let Some(from) = first {
                            stats.lock().unwrap().cycles += 1;
                            // the cycle path[from..] can repeat forever; it is a fair execution only
                            // if nothing stays enabled all the way round without being taken
                            let seg_taken: Vec<&T> = path[from..].iter().collect();
                            let mut always: Vec<T> = own_enabled[from].clone();
                            for e in own_enabled[from..].iter() {
                                always.retain(|t| e.contains(t));
                            }
                            always.retain(|t| !seg_taken.contains(&t));
                            // a poll-loop iteration advances the waiter's (hidden) timeout counter:
                            // a cycle through a Wake is not the same state coming back
                            let has_wake = seg_taken.iter().any(|t| matches!(t, T::Wake(_) | T::Timeout(_)));
                            if always.is_empty() && !has_wake {
                                findings.lock().unwrap().push(NetFinding { clause: "livelock".into(), detail: format!("a fair cycle of {} transitions: the cluster can exchange these messages forever without any node's turn being skipped; cycle {:?}", path.len() - from, path_str(&path[from..])), path: path.clone() });
                            }
                            break;
                        }
                        own_keys.push(k);
                        if !visited.lock().unwrap().insert(k) {
                            break;
                        }
                        if stats.lock().unwrap().cap.is_some() {
                            break;
                        }
                    }
                    w.shutdown();
                    Ok(())
                })();
                if let Err(e) = res {
                    *fatal.lock().unwrap() = Some(e);
                }
                active.fetch_sub(1, Ordering::SeqCst);
            });
        }
    });
    if let Some(e) = fatal.into_inner().unwrap() {
        return Err(e);
    }
    let mut st = stats.into_inner().unwrap();
    if cfg.by_deviations {
        let left = stack.into_inner().unwrap();
        st.deviations_completed = Some(match left.iter().position(|b| !b.is_empty()) {
            Some(0) => 0,
            Some(d) => d - 1,
            None => left.len().saturating_sub(1),
        });
    }
    Ok((st, findings.into_inner().unwrap()))
}

pub fn path_str(p: &[T]) -> Vec<String> {
    p.iter().map(|t| format!("{:?}", t)).collect()
}

impl NetWorld {
    /// node i (dead) starts again from its data directory (or from an empty one), as main.rs does
    pub fn restart_node(&mut self, i: usize, wipe_disk: bool, pid: u128) -> Result<(), String> {
        if self.nodes[i].alive {
            return Err("restart of a live node".into());
        }
        let ctx = self.nodes[i].node.ctx.clone();
        // the old process is gone: forget it in the registry, release its parked link threads
        self.nodes[i].node.shutdown();
        ctx.shutdown.store(false, Ordering::SeqCst);
        if wipe_disk {
            let _ = std::fs::remove_dir_all(&ctx.dir);
            std::fs::create_dir_all(&ctx.dir).map_err(|e| e.to_string())?;
        }
        let name = self.names[i].clone();
        let r = std::panic::catch_unwind(std::panic::AssertUnwindSafe(|| Node::start(ctx, &name, pid)));
        let node = match r {
            Ok(n) => n,
            Err(e) => return Err(format!("start-up of {} panicked: {} at {:?}", name, panic_msg(&e), take_panic_loc())),
        };
        let loops = Loops::new(&node);
        let seen = node.ctx.links.lock().unwrap().len();
        self.nodes[i] = NNode { node, loops, repl_q: VecDeque::new(), sup_q: VecDeque::new(), alive: true, changed: false, links_seen: seen, join_worker: None, started: true };
        Ok(())
    }

    /// what main.rs does after start-up: ask every peer to let us join, then the initial election
    pub fn join_cluster(&mut self, i: usize) -> Result<(), String> {
        self.nodes[i].started = true;
        for p in 0..self.nodes.len() {
            if p != i && self.nodes[p].alive && self.nodes[p].started {
                self.add_client(p, &[&format!("auth {} {}", USER, PWD), &format!("join {}", node_name(i)), "<eof>"], true);
            }
        }
        let jw = Worker::spawn(&format!("join-n{}-{}", i + 1, self.steps), &self.nodes[i].node, false);
        self.nodes[i].join_worker = Some(jw);
        self.nodes[i].join_worker.as_ref().unwrap().run(WCmd::InitialElection)?;
        self.pump();
        Ok(())
    }

    pub fn run_snapshot_queues(&mut self) {
        for n in self.nodes.iter() {
            if n.alive {
                n.node.run_snapshot_queue();
            }
        }
    }
}
