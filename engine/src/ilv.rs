//! ILV engine: real client threads under a controlled scheduler (baton passing at every shim
//! RwLock acquisition and explicit yield point), depth-first over schedules with iterative
//! preemption bounding.
use crate::world::NodeCtx;
use nundb::bo::{Client, Databases, Value};
use nundb::verif_hooks::{self, Hooks};
use std::collections::HashMap;
use std::panic::Location;
use std::sync::atomic::{AtomicU64, Ordering};
use std::sync::{Arc, Mutex};
use std::time::{Duration, Instant};

#[derive(Clone, Debug, PartialEq)]
pub enum Pending {
    Start,
    Acquire { lock: usize, write: bool, site: String },
    Yield(&'static str),
}

#[derive(Clone, Debug, PartialEq)]
enum TStatus {
    NotStarted,
    Running,
    AtPoint(Pending),
    Finished,
}

#[derive(Default, Debug, Clone)]
struct LockModel {
    readers: Vec<usize>,
    writer: Option<usize>,
}

#[derive(Clone, Debug)]
pub struct Point {
    /// enabled threads in canonical order: the running thread first if still enabled, then ascending
    pub enabled: Vec<usize>,
    pub chosen: usize,
    pub running_still_enabled: bool,
    pub what: String,
}

struct SchedState {
    status: Vec<TStatus>,
    locks: HashMap<usize, LockModel>,
    last_run: Option<usize>,
    granted: Option<usize>,
    steps: u64,
}

pub struct Sched {
    st: Mutex<SchedState>,
    /// hand-offs use park/unpark of exactly the thread concerned (no thundering herd)
    driver: std::thread::Thread,
    threads: Mutex<Vec<Option<std::thread::Thread>>>,
    pub seq: AtomicU64,
}

/// true = file writes of the managed threads are scheduling points as well (set by a stage for its own runs)
pub static SYSCALL_POINTS: std::sync::atomic::AtomicBool = std::sync::atomic::AtomicBool::new(false);

thread_local! {
    static TICKS: std::cell::RefCell<Vec<u64>> = std::cell::RefCell::new(vec![]);
}

/// the logical clock values the calling thread drew since the last call of this function
pub fn take_ticks() -> Vec<u64> {
    TICKS.with(|v| std::mem::take(&mut *v.borrow_mut()))
}

pub struct ThreadHooks {
    pub sched: Arc<Sched>,
    pub tid: usize,
    pub inner: Arc<NodeCtx>,
}

impl Hooks for ThreadHooks {
    fn data_dir(&self) -> Option<String> {
        self.inner.data_dir()
    }
    fn now_nanos(&self) -> Option<u64> {
        let t = self.inner.now_nanos();
        if let Some(t) = t {
            // the logical clock values this thread drew: when a command "was issued" for the code under test
            TICKS.with(|v| v.borrow_mut().push(t));
        }
        t
    }
    fn order_keys(&self, keys: &mut Vec<(String, Value)>) {
        self.inner.order_keys(keys)
    }
    fn sleep(&self, d: Duration, s: &'static Location<'static>) -> bool {
        self.inner.sleep(d, s)
    }
    fn event(&self, n: &'static str, d: &str) {
        self.inner.event(n, d)
    }
    fn yield_point(&self, name: &'static str) {
        self.sched.point(self.tid, Pending::Yield(name));
    }
    fn lock_acquire(&self, lock: usize, site: &'static Location<'static>, write: bool) {
        self.sched.point(self.tid, Pending::Acquire { lock, write, site: format!("{}:{}", site.file().rsplit('/').next().unwrap_or(""), site.line()) });
    }
    fn lock_release(&self, lock: usize, write: bool) {
        self.sched.release(self.tid, lock, write);
    }
    fn link_takeover(&self, _p: &str, _s: &str, _ip: bool, _d: &Arc<Databases>, _c: &mut Client, _r: &mut futures::channel::mpsc::Receiver<String>) -> bool {
        false
    }
}

impl Sched {
    fn new(n: usize) -> Arc<Sched> {
        Arc::new(Sched {
            st: Mutex::new(SchedState { status: vec![TStatus::NotStarted; n], locks: HashMap::new(), last_run: None, granted: None, steps: 0 }),
            driver: std::thread::current(),
            threads: Mutex::new(vec![None; n]),
            seq: AtomicU64::new(0),
        })
    }

    /// called by a managed thread: publish the pending operation, wait for the grant
    fn point(&self, tid: usize, p: Pending) {
        {
            let mut g = self.st.lock().unwrap();
            g.status[tid] = TStatus::AtPoint(p.clone());
        }
        self.driver.unpark();
        loop {
            {
                let mut g = self.st.lock().unwrap();
                if g.granted == Some(tid) {
                    g.granted = None;
                    g.status[tid] = TStatus::Running;
                    if let Pending::Acquire { lock, write, .. } = &p {
                        let m = g.locks.entry(*lock).or_default();
                        if *write {
                            m.writer = Some(tid);
                        } else {
                            m.readers.push(tid);
                        }
                    }
                    return;
                }
            }
            std::thread::park();
        }
    }

    fn release(&self, tid: usize, lock: usize, write: bool) {
        let mut g = self.st.lock().unwrap();
        if let Some(m) = g.locks.get_mut(&lock) {
            if write {
                if m.writer == Some(tid) {
                    m.writer = None;
                }
            } else if let Some(i) = m.readers.iter().position(|t| *t == tid) {
                m.readers.remove(i);
            }
        }
    }

    fn finish(&self, tid: usize) {
        let mut g = self.st.lock().unwrap();
        g.status[tid] = TStatus::Finished;
        // a finished thread holds nothing
        for m in g.locks.values_mut() {
            if m.writer == Some(tid) {
                m.writer = None;
            }
            m.readers.retain(|t| *t != tid);
        }
        drop(g);
        self.driver.unpark();
    }
}

fn grantable(st: &SchedState, tid: usize, p: &Pending) -> bool {
    match p {
        Pending::Start | Pending::Yield(_) => true,
        Pending::Acquire { lock, write, .. } => match st.locks.get(lock) {
            None => true,
            Some(m) => {
                let _ = tid;
                if *write {
                    m.writer.is_none() && m.readers.is_empty()
                } else {
                    m.writer.is_none()
                }
            }
        },
    }
}

pub struct Execution<R> {
    pub points: Vec<Point>,
    pub results: Vec<Option<R>>,
    pub deadlock: Option<String>,
    pub diverged: Option<String>,
}

pub enum RunError {
    Hang(String),
}

/// Run one execution: `bodies[i]` runs on its own OS thread; scheduling choices follow `prefix`
/// (indices into the canonical enabled list), then choice 0.
pub fn run_once<R: Send + 'static>(
    ctx: &Arc<NodeCtx>,
    bodies: Vec<Box<dyn FnOnce(&Arc<Sched>) -> R + Send>>,
    prefix: &[usize],
) -> Result<Execution<R>, RunError> {
    let n = bodies.len();
    let sched = Sched::new(n);
    let mut handles = vec![];
    for (tid, body) in bodies.into_iter().enumerate() {
        let sched2 = sched.clone();
        let ctx2 = ctx.clone();
        let ctx_dir = ctx.dir.clone();
        handles.push(
            std::thread::Builder::new()
                .name(format!("ilv-{}", tid))
                .spawn(move || {
                    sched2.threads.lock().unwrap()[tid] = Some(std::thread::current());
                    let hooks = Arc::new(ThreadHooks { sched: sched2.clone(), tid, inner: ctx2 });
                    verif_hooks::install_thread(Some(hooks as Arc<dyn Hooks>));
                    if SYSCALL_POINTS.load(std::sync::atomic::Ordering::SeqCst) {
                        // every mutating system call on the node's directory is a scheduling point too
                        let sched3 = sched2.clone();
                        let dir = ctx_dir.clone();
                        crate::crash::set_syscall_yield(Some((dir, Box::new(move |_what: &str| sched3.point(tid, Pending::Yield("file-write"))))));
                    }
                    sched2.point(tid, Pending::Start);
                    let r = std::panic::catch_unwind(std::panic::AssertUnwindSafe(|| body(&sched2)));
                    crate::crash::set_syscall_yield(None);
                    verif_hooks::install_thread(None);
                    sched2.finish(tid);
                    r.ok()
                })
                .unwrap(),
        );
    }
    let mut points: Vec<Point> = vec![];
    let mut deadlock = None;
    let mut diverged = None;
    // generous: on a machine that is busy with something else (heavy disk copies) threads were seen not to start for 20 s
    let watchdog = Duration::from_secs(90);
    loop {
        // wait until no managed thread is running
        let t0 = Instant::now();
        let mut g = loop {
            let g = sched.st.lock().unwrap();
            let busy = g.granted.is_some() || g.status.iter().any(|s| matches!(s, TStatus::Running | TStatus::NotStarted));
            if !busy {
                break g;
            }
            let statuses = format!("{:?}", g.status);
            drop(g);
            std::thread::park_timeout(Duration::from_millis(100));
            if t0.elapsed() > watchdog {
                return Err(RunError::Hang(format!(
                    "a managed thread neither reached a scheduling point nor finished within {:?} (blocked on an unmodelled primitive?) statuses={}",
                    watchdog, statuses
                )));
            }
        };
        if g.status.iter().all(|s| *s == TStatus::Finished) {
            break;
        }
        let mut enabled: Vec<usize> = vec![];
        for (tid, s) in g.status.iter().enumerate() {
            if let TStatus::AtPoint(p) = s {
                if grantable(&g, tid, p) {
                    enabled.push(tid);
                }
            }
        }
        if enabled.is_empty() {
            deadlock = Some(format!("no grantable thread: {:?} locks {:?}", g.status, g.locks));
            break;
        }
        let mut running_still_enabled = false;
        if let Some(lr) = g.last_run {
            if let Some(i) = enabled.iter().position(|t| *t == lr) {
                enabled.remove(i);
                enabled.insert(0, lr);
                running_still_enabled = true;
            }
        }
        let k = points.len();
        let choice = if k < prefix.len() { prefix[k] } else { 0 };
        if choice >= enabled.len() {
            diverged = Some(format!("replay divergence at point {}: choice {} but only {} enabled", k, choice, enabled.len()));
            break;
        }
        let tid = enabled[choice];
        let what = match &g.status[tid] {
            TStatus::AtPoint(p) => match p {
                Pending::Start => "start".to_string(),
                Pending::Yield(n) => format!("yield {}", n),
                Pending::Acquire { write, site, .. } => format!("{} {}", if *write { "write" } else { "read" }, site),
            },
            _ => String::new(),
        };
        points.push(Point { enabled: enabled.clone(), chosen: choice, running_still_enabled, what: format!("t{} {}", tid, what) });
        g.last_run = Some(tid);
        g.granted = Some(tid);
        g.steps += 1;
        drop(g);
        let th = sched.threads.lock().unwrap()[tid].clone();
        if let Some(t) = th {
            t.unpark();
        }
    }
    if deadlock.is_some() || diverged.is_some() {
        // the stuck threads cannot be resumed safely: leak them (they hold only this execution's world)
        return Ok(Execution { points, results: (0..n).map(|_| None).collect(), deadlock, diverged });
    }
    let mut results = vec![];
    for h in handles {
        results.push(h.join().unwrap_or(None));
    }
    Ok(Execution { points, results, deadlock: None, diverged: None })
}

pub struct IlvStats {
    pub executions: u64,
    pub points: u64,
    pub max_points: usize,
    pub bound_completed: usize,
    pub deadlocks: u64,
    pub capped: Option<String>,
}

/// Depth-first exploration of all schedules with at most `bound` preemptions.
/// `mk` builds a fresh world + thread bodies for every execution; `check` judges one execution.
pub fn explore<W, R: Send + 'static>(
    bound: usize,
    max_exec: u64,
    budget: Duration,
    mk: &mut dyn FnMut() -> (W, Arc<NodeCtx>, Vec<Box<dyn FnOnce(&Arc<Sched>) -> R + Send>>),
    check: &mut dyn FnMut(W, &Execution<R>, &[usize]),
) -> Result<IlvStats, RunError> {
    let start = Instant::now();
    let mut stats = IlvStats { executions: 0, points: 0, max_points: 0, bound_completed: 0, deadlocks: 0, capped: None };
    // explicit stack of prefixes
    let mut stack: Vec<Vec<usize>> = vec![vec![]];
    while let Some(prefix) = stack.pop() {
        if stats.executions >= max_exec {
            stats.capped = Some(format!("execution cap {}", max_exec));
            break;
        }
        if start.elapsed() > budget {
            stats.capped = Some(format!("time budget {:?}", budget));
            break;
        }
        let (w, ctx, bodies) = mk();
        let x = run_once(&ctx, bodies, &prefix)?;
        stats.executions += 1;
        stats.points += x.points.len() as u64;
        stats.max_points = stats.max_points.max(x.points.len());
        if x.deadlock.is_some() {
            stats.deadlocks += 1;
        }
        let choices: Vec<usize> = x.points.iter().map(|p| p.chosen).collect();
        check(w, &x, &choices);
        if let Some(d) = &x.diverged {
            return Err(RunError::Hang(format!("nondeterminism: {}", d)));
        }
        // children: deviate at every point after the prefix
        let mut preempt = 0usize;
        let mut pre: Vec<usize> = Vec::with_capacity(x.points.len());
        for p in x.points.iter() {
            pre.push(preempt);
            if p.running_still_enabled && p.chosen != 0 {
                preempt += 1;
            }
        }
        for i in (prefix.len()..x.points.len()).rev() {
            let p = &x.points[i];
            for alt in 1..p.enabled.len() {
                let cost = pre[i] + if p.running_still_enabled { 1 } else { 0 };
                if cost > bound {
                    continue;
                }
                let mut np = choices[..i].to_vec();
                np.push(alt);
                stack.push(np);
            }
        }
    }
    if stats.capped.is_none() {
        stats.bound_completed = bound;
    }
    Ok(stats)
}
