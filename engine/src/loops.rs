//! Manual driving of the two async service loops of a node (replication loop, supervisor):
//! the harness owns both queues and feeds one message (or all) per poll with a no-op waker.
use crate::world::*;
use futures::channel::mpsc::{channel, Receiver, Sender};
use futures::task::noop_waker;
use std::future::Future;
use std::panic::{catch_unwind, AssertUnwindSafe};
use std::pin::Pin;
use std::sync::Arc;
use std::task::{Context, Poll};

pub struct Loops {
    repl: Option<Pin<Box<dyn Future<Output = ()> >>>,
    sup: Option<Pin<Box<dyn Future<Output = ()> >>>,
    repl_feed: Sender<String>,
    sup_feed: Sender<String>,
    pub repl_dead: Option<String>,
    pub sup_dead: Option<String>,
}

fn poll_once(f: &mut Option<Pin<Box<dyn Future<Output = ()> >>>) -> Option<String> {
    let waker = noop_waker();
    let mut cx = Context::from_waker(&waker);
    let fut = match f.as_mut() {
        Some(x) => x,
        None => return None,
    };
    match catch_unwind(AssertUnwindSafe(|| fut.as_mut().poll(&mut cx))) {
        Ok(Poll::Pending) => None,
        Ok(Poll::Ready(())) => {
            *f = None;
            Some("loop future returned".to_string())
        }
        Err(e) => {
            *f = None;
            Some(format!("panicked: {} at {:?}", panic_msg(&e), take_panic_loc()))
        }
    }
}

impl Loops {
    pub fn new(node: &Node) -> Loops {
        node.ctx.install();
        let (repl_feed, repl_rx): (Sender<String>, Receiver<String>) = channel(1000);
        let (sup_feed, sup_rx): (Sender<String>, Receiver<String>) = channel(1000);
        let dbs1 = node.dbs.clone();
        let dbs2 = node.dbs.clone();
        let addr = Arc::new(node.addr.clone());
        let repl: Pin<Box<dyn Future<Output = ()> >> =
            Box::pin(nundb::replication_ops::start_replication_thread(repl_rx, dbs1));
        let sup: Pin<Box<dyn Future<Output = ()> >> =
            Box::pin(nundb::replication_ops::start_replication_supervisor(sup_rx, dbs2, addr));
        let mut l = Loops { repl: Some(repl), sup: Some(sup), repl_feed, sup_feed, repl_dead: None, sup_dead: None };
        // first poll opens the oplog files and parks both loops on their empty queues
        l.repl_dead = poll_once(&mut l.repl);
        l.sup_dead = poll_once(&mut l.sup);
        l
    }

    /// feed one message to the replication loop and let it run until it waits again
    pub fn feed_repl(&mut self, node: &Node, msg: String) {
        node.ctx.install();
        if self.repl.is_none() {
            return;
        }
        let _ = self.repl_feed.try_send(msg);
        if let Some(d) = poll_once(&mut self.repl) {
            self.repl_dead = Some(d);
        }
    }

    pub fn feed_sup(&mut self, node: &Node, msg: String) {
        node.ctx.install();
        if self.sup.is_none() {
            return;
        }
        // the supervisor spawns a link thread for an unknown member: wait for its hand-over
        let mut parts = msg.splitn(2, ' ');
        let cmd = parts.next().unwrap_or("");
        let name = parts.next().unwrap_or("").to_string();
        // (a node told about itself as a new secondary adds itself without a link)
        let spawns = ["secoundary", "primary", "new-secoundary"].contains(&cmd) && !node.dbs.has_cluster_memeber(&name) && !(cmd == "new-secoundary" && name == node.addr);
        let before = node.ctx.links.lock().unwrap().len();
        let _ = self.sup_feed.try_send(msg);
        if let Some(d) = poll_once(&mut self.sup) {
            self.sup_dead = Some(d);
            return;
        }
        if spawns && !node.wait_links(before + 1) {
            self.sup_dead = Some("link thread did not hand over (machinery)".to_string());
        }
    }

    /// move everything queued by the node into the loops, in queue order (supervisor first as
    /// membership changes precede fan-out in main.rs's join!), until both queues stay empty
    pub fn run_all(&mut self, node: &mut Node, max_rounds: usize) -> usize {
        let mut n = 0;
        for _ in 0..max_rounds {
            let (a, b) = node.drain_queues();
            if a.is_empty() && b.is_empty() {
                break;
            }
            for m in b {
                self.feed_sup(node, m);
                n += 1;
            }
            for m in a {
                self.feed_repl(node, m);
                n += 1;
            }
        }
        n
    }

    pub fn dead(&self) -> Option<String> {
        if let Some(d) = &self.repl_dead {
            return Some(format!("replication loop {}", d));
        }
        if let Some(d) = &self.sup_dead {
            return Some(format!("supervisor {}", d));
        }
        None
    }
}
