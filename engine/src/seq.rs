//! SEQ engine: bounded-exhaustive breadth-first exploration of command histories over a finite
//! alphabet, executed on the real code (stateless by replay), with state merging on a canonical
//! key = (reference model state, abstract implementation state).
use crate::util::hash128;
use std::collections::HashSet;
use std::sync::atomic::{AtomicBool, AtomicU64, AtomicUsize, Ordering};
use std::sync::Mutex;
use std::time::{Duration, Instant};

pub struct StepViolation {
    pub clause: String,
    pub detail: String,
    /// optional canonical shape (e.g. command word + failing call site); default = the history
    pub shape: Option<String>,
    /// soft = recorded (a known deviation the reference tolerates) but the history is continued
    pub soft: bool,
}

pub trait SeqModel: Sync {
    type World;
    fn letters(&self) -> Vec<String>;
    fn new_world(&self) -> Self::World;
    fn drop_world(&self, _w: Self::World) {}
    fn enabled(&self, _w: &Self::World, _letter: usize) -> bool {
        true
    }
    /// one transition on the real code + reference model + oracle
    fn step(&self, w: &mut Self::World, letter: usize) -> Vec<StepViolation>;
    /// canonical key of everything later behaviour can depend on
    fn key(&self, w: &Self::World) -> String;
    /// a leaf letter is executed and checked in every state, but its successor is not expanded
    /// (deviation-bounded exploration: arbitrary prefixes over the expandable letters + one leaf)
    fn is_leaf(&self, _letter: usize, _depth: usize) -> bool {
        false
    }
    /// histories the search starts from (non-initial start states); depth counts from them
    fn roots(&self) -> Vec<Vec<usize>> {
        vec![vec![]]
    }
}

pub struct SeqConfig {
    pub max_depth: usize,
    pub workers: usize,
    pub max_states: usize,
    pub budget: Duration,
}

#[derive(Debug, Clone)]
pub struct FoundViolation {
    pub clause: String,
    pub detail: String,
    pub history: Vec<usize>,
    pub shape: Option<String>,
}

pub struct SeqResult {
    pub states: u64,
    pub transitions: u64,
    pub histories: u64,
    pub depth_completed: usize,
    pub exhausted_bound: bool,
    pub frontier_sizes: Vec<usize>,
    pub violations: Vec<FoundViolation>,
    pub samples: Vec<Vec<usize>>,
    pub cap_hit: Option<String>,
    /// successor states reached by leaf letters (checked, not expanded, not deduplicated)
    pub leaf_successors: u64,
}

pub static DUMP: std::sync::OnceLock<Mutex<std::fs::File>> = std::sync::OnceLock::new();

fn replay<M: SeqModel>(m: &M, hist: &[usize], transitions: &AtomicU64) -> M::World {
    let mut w = m.new_world();
    for &l in hist {
        let _ = m.step(&mut w, l);
        transitions.fetch_add(1, Ordering::Relaxed);
    }
    w
}

pub fn explore<M: SeqModel>(m: &M, cfg: &SeqConfig) -> SeqResult {
    let _ = std::fs::create_dir_all(crate::world::scratch_root());
    let _ = std::fs::write(crate::world::scratch_root().join("letters"), m.letters().iter().enumerate().map(|(i, l)| format!("{}={}", i, l)).collect::<Vec<_>>().join("\n"));
    let start = Instant::now();
    if let Ok(p) = std::env::var("NUNMC_DUMP_STATES") {
        let _ = DUMP.set(Mutex::new(std::fs::File::create(p).unwrap()));
    }
    let letters = m.letters();
    let nl = letters.len();
    let visited: Mutex<HashSet<u128>> = Mutex::new(HashSet::new());
    let transitions = AtomicU64::new(0);
    let histories = AtomicU64::new(0);
    let violations: Mutex<Vec<FoundViolation>> = Mutex::new(vec![]);
    let stop = AtomicBool::new(false);
    let leaf_states = AtomicU64::new(0);
    let cap_hit: Mutex<Option<String>> = Mutex::new(None);

    let mut frontier: Vec<Vec<usize>> = vec![];
    for r in m.roots() {
        let (vs, k) = run_history(m, &r);
        assert!(vs.iter().all(|v| v.iter().all(|x| x.soft)), "root history {:?} already violates: {:?}", r, vs.iter().flatten().map(|v| v.detail.clone()).collect::<Vec<_>>());
        if visited.lock().unwrap().insert(hash128(&k)) {
            frontier.push(r);
        }
    }
    let mut frontier_sizes = vec![frontier.len()];
    let mut samples: Vec<Vec<usize>> = vec![];
    let mut depth_completed = 0;
    let workers = if cfg.workers == 0 {
        std::thread::available_parallelism().map(|n| n.get()).unwrap_or(4)
    } else {
        cfg.workers
    };

    for depth in 0..cfg.max_depth {
        if frontier.is_empty() {
            depth_completed = cfg.max_depth;
            break;
        }
        let next: Mutex<Vec<Vec<usize>>> = Mutex::new(vec![]);
        let idx = AtomicUsize::new(0);
        let fr = &frontier;
        // work items = (history, chunk of letters): small frontiers are still spread over all workers
        let chunks_per_hist = ((workers * 4) / fr.len().max(1)).clamp(1, (nl / 4).max(1));
        let chunk_len = (nl + chunks_per_hist - 1) / chunks_per_hist;
        let n_items = fr.len() * chunks_per_hist;
        std::thread::scope(|s| {
            for _ in 0..workers.min(n_items).max(1) {
                s.spawn(|| loop {
                    if stop.load(Ordering::Relaxed) {
                        break;
                    }
                    let item = idx.fetch_add(1, Ordering::Relaxed);
                    if item >= n_items {
                        break;
                    }
                    if start.elapsed() > cfg.budget {
                        *cap_hit.lock().unwrap() =
                            Some(format!("time budget {:?} at depth {}", cfg.budget, depth));
                        stop.store(true, Ordering::Relaxed);
                        break;
                    }
                    let hist = &fr[item / chunks_per_hist];
                    let lo = (item % chunks_per_hist) * chunk_len;
                    let hi = (lo + chunk_len).min(nl);
                    if lo >= hi {
                        continue;
                    }
                    let mut w = replay(m, hist, &transitions);
                    let k0 = m.key(&w);
                    let mut local_next = vec![];
                    for l in lo..hi {
                        if !m.enabled(&w, l) {
                            continue;
                        }
                        crate::util::set_context(&format!("history (letter indices) {:?} then {}", hist, l));
                        let vs = m.step(&mut w, l);
                        transitions.fetch_add(1, Ordering::Relaxed);
                        histories.fetch_add(1, Ordering::Relaxed);
                        let mut dirty = true;
                        let hard = vs.iter().any(|v| !v.soft);
                        if !vs.is_empty() {
                            let mut h = hist.clone();
                            h.push(l);
                            let mut g = violations.lock().unwrap();
                            for v in vs {
                                if g.len() < 20000 {
                                    g.push(FoundViolation {
                                        clause: v.clause,
                                        detail: v.detail,
                                        history: h.clone(),
                                        shape: v.shape,
                                    });
                                }
                            }
                        }
                        if !hard {
                            let k1 = m.key(&w);
                            if k1 == k0 {
                                dirty = false;
                            } else if m.is_leaf(l, depth) {
                                leaf_states.fetch_add(1, Ordering::Relaxed);
                            } else {
                                let inserted = {
                                    let mut vis = visited.lock().unwrap();
                                    if vis.len() >= cfg.max_states {
                                        *cap_hit.lock().unwrap() =
                                            Some(format!("state cap {} at depth {}", cfg.max_states, depth));
                                        stop.store(true, Ordering::Relaxed);
                                        false
                                    } else {
                                        vis.insert(hash128(&k1))
                                    }
                                };
                                if inserted {
                                    if let Some(f) = DUMP.get() {
                                        use std::io::Write;
                                        let _ = writeln!(f.lock().unwrap(), "{}", k1);
                                    }
                                    let mut h = hist.clone();
                                    h.push(l);
                                    local_next.push(h);
                                }
                            }
                        }
                        if dirty && l + 1 < hi {
                            m.drop_world(w);
                            w = replay(m, hist, &transitions);
                        }
                    }
                    m.drop_world(w);
                    next.lock().unwrap().append(&mut local_next);
                });
            }
        });
        if stop.load(Ordering::Relaxed) {
            break;
        }
        depth_completed = depth + 1;
        let mut n = next.into_inner().unwrap();
        n.sort();
        for h in n.iter().take(2) {
            if samples.len() < 10 {
                samples.push(h.clone());
            }
        }
        if let Some(h) = n.last() {
            if samples.len() < 12 {
                samples.push(h.clone());
            }
        }
        frontier_sizes.push(n.len());
        frontier = n;
    }
    let mut vs = violations.into_inner().unwrap();
    vs.sort_by_key(|v| (v.history.len(), v.history.clone()));
    let states = visited.lock().unwrap().len() as u64;
    let cap = cap_hit.into_inner().unwrap();
    SeqResult {
        states,
        transitions: transitions.load(Ordering::Relaxed),
        histories: histories.load(Ordering::Relaxed),
        depth_completed,
        exhausted_bound: cap.is_none(),
        frontier_sizes,
        violations: vs,
        samples,
        cap_hit: cap,
        leaf_successors: leaf_states.load(Ordering::Relaxed),
    }
}

/// Re-execute one history and return the per-step violations (used by replay and by the
/// determinism self-check).
pub fn run_history<M: SeqModel>(m: &M, hist: &[usize]) -> (Vec<Vec<StepViolation>>, String) {
    let mut w = m.new_world();
    let mut out = vec![];
    for &l in hist {
        out.push(m.step(&mut w, l));
    }
    let k = m.key(&w);
    m.drop_world(w);
    (out, k)
}

pub fn names(letters: &[String], hist: &[usize]) -> Vec<String> {
    hist.iter().map(|&i| letters[i].clone()).collect()
}


/// No-merge mode: every history of exactly `depth` letters over the sub-alphabet `sub` is executed
/// from scratch (oracle evaluated at every step; a history stops at its first violation). No state
/// key is consulted, so implementation state the key does not know about (a cache, a counter)
/// cannot be merged away. Cost: depth * |sub|^depth transitions.
pub fn explore_all_histories<M: SeqModel>(m: &M, prefix: &[usize], sub: &[usize], depth: usize, workers: usize, budget: Duration) -> SeqResult {
    let start = Instant::now();
    let n = sub.len() as u64;
    let total: u64 = n.pow(depth as u32);
    let idx = AtomicU64::new(0);
    let transitions = AtomicU64::new(0);
    let done = AtomicU64::new(0);
    let violations: Mutex<Vec<FoundViolation>> = Mutex::new(vec![]);
    let seen_viol: Mutex<HashSet<Vec<usize>>> = Mutex::new(HashSet::new());
    let cap: Mutex<Option<String>> = Mutex::new(None);
    let workers = if workers == 0 { std::thread::available_parallelism().map(|n| n.get()).unwrap_or(4) } else { workers };
    let chunk = 64u64;
    std::thread::scope(|s| {
        for _ in 0..workers {
            s.spawn(|| loop {
                let lo = idx.fetch_add(chunk, Ordering::Relaxed);
                if lo >= total {
                    break;
                }
                if start.elapsed() > budget {
                    *cap.lock().unwrap() = Some(format!("time budget {:?} after {} of {} histories", budget, done.load(Ordering::Relaxed), total));
                    break;
                }
                for code in lo..(lo + chunk).min(total) {
                    let mut c = code;
                    let mut hist = Vec::with_capacity(depth);
                    for _ in 0..depth {
                        hist.push(sub[(c % n) as usize]);
                        c /= n;
                    }
                    hist.extend(prefix.iter().rev().cloned());
                    hist.reverse();
                    let mut w = m.new_world();
                    for (i, &l) in hist.iter().enumerate() {
                        if !m.enabled(&w, l) {
                            break;
                        }
                        crate::util::set_context(&format!("history (letter indices) {:?}", &hist[..=i]));
                        let vs = m.step(&mut w, l);
                        transitions.fetch_add(1, Ordering::Relaxed);
                        if !vs.is_empty() {
                            let hard = vs.iter().any(|v| !v.soft);
                            let h = hist[..=i].to_vec();
                            if seen_viol.lock().unwrap().insert(h.clone()) {
                                let mut g = violations.lock().unwrap();
                                for v in vs {
                                    if g.len() < 20000 {
                                        g.push(FoundViolation { clause: v.clause, detail: v.detail, history: h.clone(), shape: v.shape });
                                    }
                                }
                            }
                            if hard {
                                break;
                            }
                        }
                    }
                    m.drop_world(w);
                    done.fetch_add(1, Ordering::Relaxed);
                }
            });
        }
    });
    let mut vs = violations.into_inner().unwrap();
    vs.sort_by_key(|v| (v.history.len(), v.history.clone()));
    let cap = cap.into_inner().unwrap();
    let d = done.load(Ordering::Relaxed);
    SeqResult {
        states: d,
        transitions: transitions.load(Ordering::Relaxed),
        histories: d,
        depth_completed: if cap.is_none() { depth } else { 0 },
        exhausted_bound: cap.is_none(),
        frontier_sizes: vec![],
        violations: vs,
        samples: vec![sub.iter().cycle().take(depth).cloned().collect()],
        cap_hit: cap,
        leaf_successors: 0,
    }
}
