mod crash;
mod http;
mod ilv;
mod loops;
mod net;
mod props;
mod report;
mod s3stub;
mod seq;
mod tcp;
mod util;
mod ws;
mod wire;
mod world;

fn usage() -> ! {
    eprintln!("usage: nunmc <PROPERTY> <quick|thorough> | nunmc replay <file>");
    std::process::exit(2)
}

/// A property check runs in a child process of its own: the code under test can take the process
/// down without unwinding (a failed allocation of a length read from a damaged file aborts).
/// That is a verdict about the code under test, not a failure of the machinery: the parent
/// reports it, with what the child was handing to the code under test at that moment.
fn run_isolated(args: &[String]) -> i32 {
    use std::io::BufRead;
    use std::os::unix::process::ExitStatusExt;
    let t0 = std::time::Instant::now();
    let mut child = match std::process::Command::new(util::self_exe()).args(&args[1..]).env("NUNMC_ISOLATED", "1").stderr(std::process::Stdio::piped()).spawn() {
        Ok(c) => c,
        Err(e) => {
            eprintln!("machinery: cannot start the check process: {}", e);
            return 2;
        }
    };
    let pid = child.id();
    let err = child.stderr.take().unwrap();
    let tail = std::sync::Arc::new(std::sync::Mutex::new(std::collections::VecDeque::<String>::new()));
    let tail2 = tail.clone();
    let reader = std::thread::spawn(move || {
        for line in std::io::BufReader::new(err).split(b'\n').flatten() {
            let line = String::from_utf8_lossy(&line).to_string();
            eprintln!("{}", line);
            let mut t = tail2.lock().unwrap();
            t.push_back(line);
            if t.len() > 60 {
                t.pop_front();
            }
        }
    });
    let status = child.wait();
    let _ = reader.join();
    let scratch = std::path::PathBuf::from(format!("{}/nunmc-{}", if std::path::Path::new("/dev/shm").is_dir() { "/dev/shm" } else { "/tmp" }, pid));
    let letters = std::fs::read_to_string(scratch.join("letters")).map(|l| format!(" [letters of the alphabet: {}]", l.replace('\n', " | "))).unwrap_or_default();
    let crumb = format!("{}{}", util::read_contexts(&scratch).join(" ## "), if letters.len() < 3000 { letters } else { String::new() });
    let _ = std::fs::remove_dir_all(&scratch);
    let status = match status {
        Ok(s) => s,
        Err(e) => {
            eprintln!("machinery: waiting for the check process failed: {}", e);
            return 2;
        }
    };
    if let Some(c) = status.code() {
        return c;
    }
    let lines: Vec<String> = tail.lock().unwrap().iter().cloned().collect();
    let alloc = lines.iter().rev().find(|l| l.starts_with("memory allocation of ") && l.ends_with(" failed")).cloned();
    let signal = status.signal().unwrap_or(0);
    match alloc {
        Some(a) if signal == 6 => {
            let property = args[1].clone();
            let tier = args[2].clone();
            let level = match property.as_str() {
                "C11" | "C16" | "C18" => "fault_enumeration",
                _ => "model_checking",
            };
            let shape = format!("{} @ {}", a.replace(|c: char| c.is_ascii_digit(), "#"), crumb.split(" || ").next().unwrap_or(""));
            let dir = format!("/verif/replays/{}", property);
            let _ = std::fs::create_dir_all(&dir);
            let path = format!("{}/{:016x}.json", dir, (util::hash128(&shape) >> 64) as u64);
            let body = serde_json::json!({"property": property, "clause": "code-under-test-aborted-the-process", "shape": shape, "detail": format!("{}; the check had just handed this to the code under test: {}", a, crumb), "replay": {"engine":"isolation","handed_to_the_code_under_test": crumb, "stderr_tail": lines}});
            let _ = std::fs::write(&path, serde_json::to_string_pretty(&body).unwrap());
            println!("VIOLATION property={} replay={}", property, path);
            println!("  clause=code-under-test-aborted-the-process shape={}", shape);
            println!("  detail={}; handed to the code under test: {}", a, crumb);
            let ev = serde_json::json!({
                "property_id": property, "tier": tier, "seed": std::env::var("VERIF_SEED").ok().and_then(|s| s.parse::<u64>().ok()).unwrap_or(0), "level": level,
                "coverage": {"evaluations": 1, "distinct_nontrivial": 1, "exhaustive": false, "aborted_by_the_code_under_test": true,
                    "rule": "the check process was aborted by the code under test (allocation failure); only the case that was being handed to it is reported",
                    "explanation": "the check process was aborted by the code under test (allocation failure); only the case that was being handed to it is reported",
                    "samples": [crumb]},
                "assumptions": [], "wall_s": t0.elapsed().as_secs_f64(), "violations": 1});
            let evdir = std::env::var("NUNMC_EVIDENCE_DIR").unwrap_or_else(|_| "/verif/evidence".to_string());
            let _ = std::fs::create_dir_all(&evdir);
            let _ = std::fs::write(format!("{}/{}.json", evdir, property), serde_json::to_string_pretty(&ev).unwrap());
            println!("{} {}: VIOLATED (the code under test aborted the check process)", property, tier);
            1
        }
        _ => {
            eprintln!("machinery: the check process was killed by signal {} (last thing handed to the code under test: {})", signal, crumb);
            2
        }
    }
}

fn main() {
    let args: Vec<String> = std::env::args().collect();
    if args.len() < 3 {
        usage();
    }
    let is_property = args[1].len() == 3 && args[1].starts_with('C') && args[1][1..].chars().all(|c| c.is_ascii_digit());
    if is_property && std::env::var("NUNMC_ISOLATED").is_err() {
        std::process::exit(run_isolated(&args));
    }
    world::install_panic_hook();
    world::remove_stale_scratch();
    world::install_global_hooks();
    if args[1] == "realnode" {
        wire::realnode_main(&args[2..]);
    }
    if args[1] == "wire" && args[2] == "rejoin" {
        let code = wire::rejoin_demo();
        world::cleanup_scratch();
        std::process::exit(code);
    }
    if args[1] == "wire" {
        let n: usize = args[2].parse().unwrap_or(2);
        let strategy: &'static str = match args.get(3).map(|s| s.as_str()) {
            Some("newer") => "newer",
            Some("arbiter") => "arbiter",
            _ => "none",
        };
        let code = wire::demo(n, strategy);
        world::cleanup_scratch();
        std::process::exit(code);
    }
    if args[1] == "net-demo2" {
        net::init_sleep_sites();
        let c = props::c07::Config { nodes: 3, pids: vec![100, 200, 300], trigger: props::c07::Trigger::LateJoin };
        match props::c07::build(&c) {
            Ok(mut w) => {
                let r = w.run_to_quiescence(20000);
                println!("run: {:?} steps {}", r, w.steps);
                for i in 0..3 {
                    println!("n{} role={} members={:?}", i + 1, w.role(i), w.members(i));
                }
                println!("problems: {:?}", w.problems);
                w.shutdown();
            }
            Err(e) => println!("build failed: {}", e),
        }
        world::cleanup_scratch();
        std::process::exit(0);
    }
    if args[1] == "net-demo" {
        net::init_sleep_sites();
        let n: usize = args[2].parse().unwrap_or(2);
        let t0 = std::time::Instant::now();
        match net::settled_cluster(n) {
            Ok(w) => {
                println!("settled in {:?} after {} steps", t0.elapsed(), w.steps);
                for i in 0..n {
                    println!("n{} role={} members={:?}", i + 1, w.role(i), w.members(i));
                }
                println!("links: {:?}", w.links.iter().map(|l| format!("{}>{} open={} delivered={}", l.from + 1, l.to + 1, l.open, l.delivered)).collect::<Vec<_>>());
                println!("problems: {:?}", w.problems);
                println!("key: {}", &w.key());
                w.shutdown();
            }
            Err(e) => println!("bootstrap failed: {}", e),
        }
        world::cleanup_scratch();
        std::process::exit(0);
    }
    if args[1] == "c07-run" {
        // c07-run <substring of the configuration name> <max steps> [fair]
        net::init_sleep_sites();
        let max: usize = args.get(3).and_then(|a| a.parse().ok()).unwrap_or(2000);
        let fair = args.get(4).map(|a| a == "fair").unwrap_or(false);
        for c in props::c07::configs(false) {
            if !c.name().contains(&args[2]) {
                continue;
            }
            match props::c07::build(&c) {
                Ok(mut w) => {
                    let r = if fair { w.run_fair(max).map(|r| format!("{:?}", r)) } else { w.run_to_quiescence(max).map(|n| format!("quiet after {}", n)) };
                    println!("{} [{}]: {:?}", c.name(), if fair { "fair schedule" } else { "default schedule" }, r);
                    for i in 0..c.nodes {
                        println!("  n{} role={} members={:?}", i + 1, w.role(i), w.members(i));
                    }
                    w.shutdown();
                }
                Err(e) => println!("build failed: {}", e),
            }
        }
        world::cleanup_scratch();
        std::process::exit(0);
    }
    if args[1] == "tcp-reset-demo" {
        use world::*;
        let node = Node::new_single("tcp-reset-demo");
        let mut admin = Session::new();
        admin.exec(&node, &format!("auth {} {}", USER, PWD));
        admin.exec(&node, "create-db t tok none");
        admin.exec(&node, "use-db t tok");
        admin.exec(&node, &format!("set big {}", "x".repeat(3_000_000)));
        let _ = admin.disconnect(&node);
        let tcp = tcp::TcpServer::start(node.dbs.clone());
        let count = || with_db(&node.dbs, "t", |db| db.connections_count()).unwrap_or(usize::MAX);
        println!("before: counter {}", count());
        for round in 0..3 {
            let mut c = tcp.connect();
            c.send_raw(b"use-db t tok\nget big\nget big\nget big\n");
            std::thread::sleep(std::time::Duration::from_millis(if round == 0 { 0 } else { 30 }));
            c.reset();
            std::thread::sleep(std::time::Duration::from_millis(500));
            println!("round {}: counter {} panics {} last {:?}", round, count(), world::PANIC_COUNT.load(std::sync::atomic::Ordering::SeqCst), world::PANIC_LOG.lock().unwrap().last());
        }
        std::process::exit(0);
    }
    if args[1] == "c10-alphabet" {
        // c10-alphabet <prefix>: the lines of C10's alphabet that start with the prefix, with their parse key (a debugging aid)
        for l in props::c10::alphabet(true) {
            if l.starts_with(args.get(2).map(|x| x.as_str()).unwrap_or("")) {
                println!("{:?} => {}", l, props::lines::parse_key(&l).chars().take(100).collect::<String>());
            }
        }
        std::process::exit(0);
    }
    if args[1] == "script" {
        // script <strategy> <line>... : one administrator session on a single node with database t
        // selected; prints every reply and the messages the session received (a debugging aid)
        use world::*;
        let node = Node::new_single("script");
        let mut s = Session::new();
        s.exec(&node, &format!("auth {} {}", USER, PWD));
        s.exec(&node, &format!("create-db t tok {}", args.get(2).map(|x| x.as_str()).unwrap_or("none")));
        s.exec(&node, "use-db t tok");
        for l in args.iter().skip(3) {
            let o = s.exec(&node, l);
            println!("`{}` -> {} {:?}", l, o.resp, o.msgs);
        }
        println!("final: {:?}", with_db(&node.dbs, "t", |d| dump_db(d)));
        node.remove_dir();
        std::process::exit(0);
    }
    if args[1] == "ws-demo" {
        use world::*;
        let node = Node::new_single("ws-demo");
        let mut admin = Session::new();
        admin.exec(&node, &format!("auth {} {}", USER, PWD));
        admin.exec(&node, "create-db t tok none");
        let _ = admin.disconnect(&node);
        let ws = ws::WsServer::start(node.dbs.clone());
        let mut c = ws.connect().unwrap();
        println!("use-db: {:?}", c.cmd("use-db t tok"));
        println!("set;get: {:?}", c.cmd("set k 1;get k;get nope"));
        println!("watch: {:?}", c.cmd("watch k;set k 2"));
        println!("extra: {:?}", c.read_replies(1, 200));
        let mut d = ws.connect().unwrap();
        println!("binary utf8 sent: {}", d.send_binary(b"get k"));
        println!("  -> {:?}", d.read_replies(1, 300));
        println!("service dead: {} panics {}", ws.service_dead(), world::PANIC_COUNT.load(std::sync::atomic::Ordering::SeqCst));
        let mut e = ws.connect().unwrap();
        println!("binary non-utf8 sent: {}", e.send_binary(&[0xff, 0xfe, b' ', b'k']));
        println!("  -> {:?}", e.read_replies(1, 300));
        std::thread::sleep(std::time::Duration::from_millis(200));
        println!("service dead: {} panics {}", ws.service_dead(), world::PANIC_COUNT.load(std::sync::atomic::Ordering::SeqCst));
        println!("panic log: {:?}", world::PANIC_LOG.lock().unwrap().last());
        println!("first conn still served: {:?}", c.cmd("get k"));
        println!("new conn: {:?}", ws.connect().map(|_| ()));
        println!("close: {}", c.close_and_wait());
        std::process::exit(0);
    }
    if args[1] == "crash-selftest" {
        println!("{:?}", crash::self_test());
        std::process::exit(0);
    }
    if args[1] == "C18W" {
        props::c18::worker(&args[2..]);
        world::cleanup_scratch();
        std::process::exit(0);
    }
    if args[1] == "C18X" {
        props::c18::xproc_child(&args[2..]);
        world::cleanup_scratch();
        std::process::exit(0);
    }
    if args[1] == "C12ROT" {
        props::c12::rotation_worker(&args[2]);
        world::cleanup_scratch();
        std::process::exit(0);
    }
    let code = if args[1] == "replay" {
        props::replay(&args[2])
    } else {
        let tier = args[2].as_str();
        if tier != "quick" && tier != "thorough" {
            usage();
        }
        let level = match args[1].as_str() {
            "C11" | "C16" | "C18" => "fault_enumeration",
            _ => "model_checking",
        };
        let mut run = report::Run::new(&args[1], tier, level);
        let r = std::panic::catch_unwind(std::panic::AssertUnwindSafe(|| {
            if !props::dispatch(&mut run) {
                eprintln!("machinery: unknown property {}", run.property);
                std::process::exit(2);
            }
        }));
        match r {
            Ok(_) => run.finish(),
            Err(e) => {
                // A panic that unwound into the driver.  If it was raised inside the code under
                // test (location in the repository's sources) while the driver called it directly,
                // the code under test failed: that is a verdict, and whatever the check had already
                // found is reported with it.  A panic of the harness itself is a machinery error.
                let msg = world::panic_msg(&e);
                let last = world::PANIC_LOG.lock().unwrap().last().cloned().unwrap_or_default();
                let in_subject = last.contains("/repo/src/") || last.contains("/seedtry/repo/src/") || last.contains("seedtrysrc/");
                if in_subject {
                    let loc = last.rsplit(" @ ").next().unwrap_or("").replace("/repo/", "");
                    run.violate(report::Violation {
                        clause: "code-under-test-panicked-in-the-driver-thread".into(),
                        shape: format!("{} @ {}", msg.chars().take(80).collect::<String>(), loc),
                        detail: format!("the check was aborted by a panic raised inside the code under test while the driver called it: {}", last),
                        replay: serde_json::json!({"engine":"driver","panic":last}),
                    });
                    run.cov("aborted_by_panic_in_code_under_test", serde_json::json!(true));
                    run.cov("exhaustive", serde_json::json!(false));
                    run.finish()
                } else {
                    eprintln!("machinery: engine panicked: {}", msg);
                    for l in world::PANIC_LOG.lock().unwrap().iter().rev().take(5) {
                        eprintln!("  {}", l);
                    }
                    2
                }
            }
        }
    };
    world::cleanup_scratch();
    std::process::exit(code);
}
