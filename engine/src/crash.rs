//! CRASH engine: the harness binary interposes the libc entry points through which Rust's std
//! mutates files. While a capture is active on the calling thread, the directory under test is
//! copied aside *before* every mutating system call, which yields exactly the states a killed
//! process can leave behind (each system call atomic, no fsync in the code under test).
use libc::{c_char, c_int, c_uint, c_void, off64_t, size_t, ssize_t};
use std::cell::RefCell;
use std::ffi::CStr;
use std::path::{Path, PathBuf};

pub struct Capture {
    pub dir: PathBuf,
    pub out: PathBuf,
    pub ops: Vec<String>,
    busy: bool,
}

thread_local! {
    static CAP: RefCell<Option<Capture>> = RefCell::new(None);
}

/// Interleaving exploration (ILV): while set on a thread, every mutating system call on a file under the
/// given directory first calls the closure - a scheduling point of the controlled scheduler, so that
/// another thread can run between two file writes of this one.
pub struct SysYield {
    pub dir: PathBuf,
    pub f: Box<dyn Fn(&str)>,
    busy: bool,
}

thread_local! {
    static SYS_YIELD: RefCell<Option<SysYield>> = RefCell::new(None);
}

pub fn set_syscall_yield(v: Option<(PathBuf, Box<dyn Fn(&str)>)>) {
    SYS_YIELD.with(|c| *c.borrow_mut() = v.map(|(dir, f)| SysYield { dir, f, busy: false }));
}

fn yield_active() -> bool {
    SYS_YIELD.try_with(|c| c.try_borrow().map(|c| c.as_ref().map(|c| !c.busy).unwrap_or(false)).unwrap_or(false)).unwrap_or(false)
}

fn maybe_yield(path: &Path, kind: &str) {
    if !yield_active() {
        return;
    }
    SYS_YIELD.with(|c| {
        {
            let mut g = c.borrow_mut();
            let y = g.as_mut().unwrap();
            if !path.starts_with(&y.dir) {
                return;
            }
            y.busy = true;
        }
        // the closure parks this thread until the scheduler grants it; the borrow is shared meanwhile
        {
            let g = c.borrow();
            let y = g.as_ref().unwrap();
            let file = path.file_name().map(|f| f.to_string_lossy().to_string()).unwrap_or_default();
            (y.f)(&format!("{} {}", kind, file));
        }
        c.borrow_mut().as_mut().unwrap().busy = false;
    });
}

pub fn begin(dir: &Path, out: &Path) {
    std::fs::create_dir_all(out).unwrap();
    CAP.with(|c| *c.borrow_mut() = Some(Capture { dir: dir.to_path_buf(), out: out.to_path_buf(), ops: vec![], busy: false }));
}

/// ends the capture; the final state is stored as state-<n>; returns the op descriptions
pub fn end() -> Vec<String> {
    let cap = CAP.with(|c| c.borrow_mut().take());
    match cap {
        Some(c) => {
            copy_tree(&c.dir, &c.out.join(format!("state-{}", c.ops.len())));
            c.ops
        }
        None => vec![],
    }
}

pub fn copy_tree(from: &Path, to: &Path) {
    let _ = std::fs::create_dir_all(to);
    if let Ok(rd) = std::fs::read_dir(from) {
        for e in rd.flatten() {
            let p = e.path();
            let t = to.join(e.file_name());
            if p.is_dir() {
                copy_tree(&p, &t);
            } else {
                let _ = std::fs::copy(&p, &t);
            }
        }
    }
}

fn fd_path(fd: c_int) -> Option<PathBuf> {
    std::fs::read_link(format!("/proc/self/fd/{}", fd)).ok()
}

/// called before a mutating syscall; `path` is the affected file
fn active() -> bool {
    yield_active() || cap_active()
}

fn cap_active() -> bool {
    CAP.try_with(|c| c.try_borrow().map(|c| c.as_ref().map(|c| !c.busy).unwrap_or(false)).unwrap_or(false)).unwrap_or(false)
}

fn note(path: &Path, what: impl FnOnce() -> String) {
    maybe_yield(path, "file-write");
    // fast path: nothing captured on this thread
    if !cap_active() {
        return;
    }
    CAP.with(|c| {
        let (dir, out, n) = {
            let mut g = c.borrow_mut();
            let cap = g.as_mut().unwrap();
            if !path.starts_with(&cap.dir) {
                return;
            }
            cap.busy = true;
            (cap.dir.clone(), cap.out.clone(), cap.ops.len())
        };
        copy_tree(&dir, &out.join(format!("state-{}", n)));
        let desc = what();
        let mut g = c.borrow_mut();
        let cap = g.as_mut().unwrap();
        let rel = |s: &str| s.replace(cap.dir.to_str().unwrap_or(""), "");
        cap.ops.push(rel(&desc));
        cap.busy = false;
    });
}

fn cpath(p: *const c_char) -> PathBuf {
    if p.is_null() {
        return PathBuf::new();
    }
    let s = unsafe { CStr::from_ptr(p) }.to_string_lossy().to_string();
    let pb = PathBuf::from(&s);
    if pb.is_absolute() {
        pb
    } else {
        std::env::current_dir().map(|d| d.join(&pb)).unwrap_or(pb)
    }
}

#[no_mangle]
pub unsafe extern "C" fn write(fd: c_int, buf: *const c_void, count: size_t) -> ssize_t {
    if fd > 2 && active() {
        if let Some(p) = fd_path(fd) {
            note(&p, || format!("write {} {}B", p.display(), count));
        }
    }
    libc::syscall(libc::SYS_write, fd, buf, count) as ssize_t
}

#[no_mangle]
pub unsafe extern "C" fn pwrite64(fd: c_int, buf: *const c_void, count: size_t, offset: off64_t) -> ssize_t {
    if active() {
        if let Some(p) = fd_path(fd) {
            note(&p, || format!("pwrite {} {}B@{}", p.display(), count, offset));
        }
    }
    libc::syscall(libc::SYS_pwrite64, fd, buf, count, offset) as ssize_t
}

#[no_mangle]
pub unsafe extern "C" fn pwrite(fd: c_int, buf: *const c_void, count: size_t, offset: off64_t) -> ssize_t {
    pwrite64(fd, buf, count, offset)
}

#[no_mangle]
pub unsafe extern "C" fn rename(from: *const c_char, to: *const c_char) -> c_int {
    if active() {
        let (f, t) = (cpath(from), cpath(to));
        note(&f, || format!("rename {} -> {}", f.display(), t.display()));
    }
    libc::syscall(libc::SYS_renameat2, libc::AT_FDCWD, from, libc::AT_FDCWD, to, 0) as c_int
}

#[no_mangle]
pub unsafe extern "C" fn unlink(path: *const c_char) -> c_int {
    if active() {
        let p = cpath(path);
        note(&p, || format!("unlink {}", p.display()));
    }
    libc::syscall(libc::SYS_unlinkat, libc::AT_FDCWD, path, 0) as c_int
}

#[no_mangle]
pub unsafe extern "C" fn mkdir(path: *const c_char, mode: libc::mode_t) -> c_int {
    if active() {
        let p = cpath(path);
        note(&p, || format!("mkdir {}", p.display()));
    }
    libc::syscall(libc::SYS_mkdirat, libc::AT_FDCWD, path, mode as c_uint) as c_int
}

#[no_mangle]
pub unsafe extern "C" fn ftruncate64(fd: c_int, len: off64_t) -> c_int {
    if active() {
        if let Some(p) = fd_path(fd) {
            note(&p, || format!("ftruncate {} {}", p.display(), len));
        }
    }
    libc::syscall(libc::SYS_ftruncate, fd, len) as c_int
}

unsafe fn open_common(dirfd: c_int, path: *const c_char, flags: c_int, mode: c_uint) -> c_int {
    if flags & (libc::O_CREAT | libc::O_TRUNC) != 0 && dirfd == libc::AT_FDCWD && active() {
        let p = cpath(path);
        let exists = p.exists();
        if (flags & libc::O_TRUNC != 0 && exists) || (flags & libc::O_CREAT != 0 && !exists) {
            note(&p, || format!("{} {}", if exists { "truncate" } else { "create" }, p.display()));
        }
    }
    libc::syscall(libc::SYS_openat, dirfd, path, flags, mode) as c_int
}

#[no_mangle]
pub unsafe extern "C" fn open64(path: *const c_char, flags: c_int, mode: c_uint) -> c_int {
    open_common(libc::AT_FDCWD, path, flags | libc::O_LARGEFILE, mode)
}

#[no_mangle]
pub unsafe extern "C" fn open(path: *const c_char, flags: c_int, mode: c_uint) -> c_int {
    open_common(libc::AT_FDCWD, path, flags, mode)
}

/// self-test: the interposition really sees std's file operations (else every CRASH result is void)
pub fn self_test() -> Result<usize, String> {
    use std::io::Write;
    let base = crate::world::fresh_dir("crash-selftest");
    let out = crate::world::fresh_dir("crash-selftest-out");
    begin(&base, &out);
    {
        let mut f = std::fs::OpenOptions::new().create(true).append(true).open(base.join("a.bin")).unwrap();
        f.write_all(b"12345").unwrap();
        let mut w = std::io::BufWriter::with_capacity(4, std::fs::OpenOptions::new().create(true).write(true).open(base.join("b.bin")).unwrap());
        w.write_all(b"abcdefgh").unwrap();
        w.flush().unwrap();
        std::fs::rename(base.join("a.bin"), base.join("c.bin")).unwrap();
        std::fs::remove_file(base.join("b.bin")).unwrap();
        use std::os::unix::fs::FileExt;
        let g = std::fs::OpenOptions::new().write(true).open(base.join("c.bin")).unwrap();
        g.write_at(b"ZZ", 1).unwrap();
    }
    let ops = end();
    let kinds: Vec<&str> = ops.iter().map(|o| o.split(' ').next().unwrap_or("")).collect();
    let _ = std::fs::remove_dir_all(&base);
    // state-k must exist for every k and reflect exactly k operations
    let ok = ["create", "write", "create", "write", "rename", "unlink", "pwrite"].iter().all(|k| kinds.contains(k));
    let s2 = out.join("state-2").join("a.bin");
    let content = std::fs::read(&s2).unwrap_or_default();
    let _ = std::fs::remove_dir_all(&out);
    if !ok {
        return Err(format!("interposition incomplete: saw {:?}", ops));
    }
    if content != b"12345" {
        return Err(format!("state-2 should hold a.bin=12345, holds {:?} (ops {:?})", content, ops));
    }
    Ok(ops.len())
}
