//! WIRE — the NET engine's link model against the real transport.
//!
//! The NET engine runs real nodes but *models* the connection between them (net.rs: handshake
//! lines of `auth_on_replication`, FIFO queues, the ok / error line `tcp_ops::handle_client`
//! writes after every command, the reader of `start_replication` that skips `ok`). This stage
//! binds that model to the code: the same scenario is run
//!   (a) on a cluster of real node *processes* (`nunmc realnode`, a mirror of main.rs::start_db
//!       with the real `start_tcp_client` server, the real supervisor / replication loop under
//!       `block_on`, the real link threads speaking real TCP, real sleeps, the wall clock), whose
//!       inter-node connections all pass through logging proxies of the harness, and
//!   (b) on the in-process NET cluster under its default schedule,
//! and the per-connection, per-direction line sequences must be identical after renaming
//! addresses, op ids and process ids. The real run is also judged directly (it is one schedule of
//! the real system): callers get the real per-operation traffic and every node's data.
use crate::net::*;
use crate::world::*;
use std::collections::BTreeMap;
use std::io::{BufRead, BufReader, Write};
use std::net::{TcpListener, TcpStream};
use std::process::{Child, Command, Stdio};
use std::sync::atomic::{AtomicBool, AtomicUsize, Ordering};
use std::sync::{Arc, Mutex};
use std::time::{Duration, Instant};

// ---------------------------------------------------------------------------------------------
// child process: one real node

/// `nunmc realnode <data dir> <bind addr> <node name = advertised addr> <replicate list or -> `
/// Mirrors main.rs::start_db (TCP front end, supervisor, replication loop, join thread + initial
/// election); the WebSocket / HTTP front ends and the declutter timer are not started.
pub fn realnode_main(args: &[String]) -> ! {
    use futures::channel::mpsc::{channel, Receiver, Sender};
    unsafe {
        // die with the harness
        libc::prctl(libc::PR_SET_PDEATHSIG, libc::SIGKILL);
    }
    let dir = std::path::PathBuf::from(&args[0]);
    let bind = args[1].clone();
    let name = args[2].clone();
    let replicate = if args[3] == "-" { String::new() } else { args[3].clone() };
    let ctx = NodeCtx::new(dir, 0);
    ctx.virtual_sleep.store(false, Ordering::SeqCst);
    ctx.real_clock.store(true, Ordering::SeqCst);
    ctx.install();
    set_fallback_ctx(Some(ctx.clone()));
    LINK_TAKEOVER.store(false, Ordering::SeqCst);

    let (replication_sender, replication_receiver): (Sender<String>, Receiver<String>) = channel(100);
    let (replication_supervisor_sender, replication_supervisor_receiver): (Sender<String>, Receiver<String>) = channel(100);
    let keys_map = nundb::disk_ops::load_keys_map_from_disk();
    let is_oplog_valid = nundb::disk_ops::is_oplog_valid();
    if !is_oplog_valid {
        nundb::disk_ops::Oplog::clean_op_log_metadata_files();
    }
    // tcp_address = external address = the advertised name (the harness's proxy port forwards to
    // the port this process really binds, as a port-forwarding deployment would)
    let dbs = nundb::db_ops::create_init_dbs(
        USER.to_string(),
        PWD.to_string(),
        name.clone(),
        name.clone(),
        replication_supervisor_sender,
        replication_sender.clone(),
        keys_map,
        is_oplog_valid,
    );
    nundb::bo::Databases::load_all_dbs(&dbs);
    let dbs_tcp = dbs.clone();
    let bind_t = bind.clone();
    let _tcp_thread = std::thread::spawn(move || nundb::network::tcp_ops::start_tcp_client(dbs_tcp, &bind_t));
    let db_replication_start = dbs.clone();
    let ext = Arc::new(name.clone());
    let replication_thread_creator = async { nundb::replication_ops::start_replication_supervisor(replication_supervisor_receiver, db_replication_start, ext).await };
    let db_replication = dbs.clone();
    let replication_thread = async { nundb::replication_ops::start_replication_thread(replication_receiver, db_replication).await };
    let dbs_self_election = dbs.clone();
    let name_j = name.clone();
    let _join_thread = std::thread::spawn(move || {
        nundb::replication_ops::ask_to_join_all_replicas(&replicate, &name_j, &name_j, &dbs_self_election.user.to_string(), &dbs_self_election.pwd.to_string());
        nundb::election_ops::start_inital_election(dbs_self_election)
    });
    // the snapshot / declutter timer (interval from NUN_DECLUTTER_INTERVAL, set by the harness)
    let db_snap = dbs.clone();
    let _snapshot_thread = std::thread::spawn(|| nundb::disk_ops::declutter_scheduler(timer::Timer::new(), db_snap));
    println!("realnode {} up", name);
    futures::executor::block_on(async {
        futures::join!(replication_thread_creator, replication_thread);
    });
    std::process::exit(0)
}

// ---------------------------------------------------------------------------------------------
// logging proxy

#[derive(Clone, Debug)]
pub struct WireLine {
    pub conn: usize,
    /// node index whose advertised address the connection was opened to
    pub server: usize,
    /// true = opener -> server
    pub fwd: bool,
    pub line: String,
}

pub struct WireLog {
    pub lines: Mutex<Vec<WireLine>>,
    pub last: Mutex<Instant>,
    pub conns: AtomicUsize,
    pub stop: AtomicBool,
}

fn pump_lines(from: TcpStream, to: TcpStream, log: Arc<WireLog>, conn: usize, server: usize, fwd: bool) {
    let mut r = BufReader::new(from);
    let mut to = to;
    loop {
        let mut buf: Vec<u8> = vec![];
        match r.read_until(b'\n', &mut buf) {
            Ok(0) | Err(_) => break,
            Ok(_) => {
                let text = String::from_utf8_lossy(&buf).trim_end_matches('\n').to_string();
                {
                    log.lines.lock().unwrap().push(WireLine { conn, server, fwd, line: text });
                    *log.last.lock().unwrap() = Instant::now();
                }
                if to.write_all(&buf).is_err() {
                    break;
                }
                let _ = to.flush();
            }
        }
    }
    // end of this direction: the other side sees end-of-file
    let _ = to.shutdown(std::net::Shutdown::Write);
    log.lines.lock().unwrap().push(WireLine { conn, server, fwd, line: "<eof>".into() });
}

fn start_proxy(listener: TcpListener, target: String, server: usize, log: Arc<WireLog>) {
    std::thread::Builder::new()
        .name(format!("proxy-n{}", server + 1))
        .spawn(move || {
            for s in listener.incoming() {
                if log.stop.load(Ordering::SeqCst) {
                    break;
                }
                let s = match s {
                    Ok(s) => s,
                    Err(_) => continue,
                };
                let t = match TcpStream::connect(&target) {
                    Ok(t) => t,
                    Err(_) => continue, // node not up: the opener sees the connection end at once
                };
                let _ = s.set_nodelay(true);
                let _ = t.set_nodelay(true);
                let conn = log.conns.fetch_add(1, Ordering::SeqCst);
                let (s2, t2) = (s.try_clone().unwrap(), t.try_clone().unwrap());
                let (l1, l2) = (log.clone(), log.clone());
                std::thread::spawn(move || pump_lines(s, t, l1, conn, server, true));
                std::thread::spawn(move || pump_lines(t2, s2, l2, conn, server, false));
            }
        })
        .unwrap();
}

// ---------------------------------------------------------------------------------------------
// the real cluster

pub struct RealClient {
    stream: TcpStream,
    reader: BufReader<TcpStream>,
}

impl RealClient {
    pub fn connect(addr: &str) -> Result<RealClient, String> {
        let s = TcpStream::connect(addr).map_err(|e| format!("connect {}: {}", addr, e))?;
        s.set_read_timeout(Some(Duration::from_secs(10))).unwrap();
        let _ = s.set_nodelay(true);
        let mut c = RealClient { reader: BufReader::new(s.try_clone().unwrap()), stream: s };
        let mut greeting = String::new();
        c.reader.read_line(&mut greeting).map_err(|e| format!("greeting: {}", e))?;
        Ok(c)
    }
    /// send one command; the lines up to and including the ok / error line that ends its answer
    pub fn cmd(&mut self, line: &str) -> Result<Vec<String>, String> {
        self.stream.write_all(format!("{}\n", line).as_bytes()).map_err(|e| e.to_string())?;
        let mut out = vec![];
        loop {
            let mut l = String::new();
            match self.reader.read_line(&mut l) {
                Ok(0) => return Err(format!("connection closed while waiting for the answer to `{}`", line)),
                Ok(_) => {
                    let t = l.trim().to_string();
                    let end = t == "ok" || t.starts_with("ok ") || t.starts_with("error ");
                    // value lines keep their blanks (only the line end is cut)
                    out.push(if end { t } else { l.trim_end_matches('\n').to_string() });
                    if end {
                        return Ok(out);
                    }
                }
                Err(e) => return Err(format!("no answer to `{}`: {} (got {:?})", line, e, out)),
            }
        }
    }
}

pub struct RealCluster {
    pub n: usize,
    pub children: Vec<Child>,
    /// what the nodes call each other (proxy addresses)
    pub names: Vec<String>,
    /// where the node processes really listen (clients of the harness connect here)
    pub direct: Vec<String>,
    pub log: Arc<WireLog>,
    pub dirs: Vec<std::path::PathBuf>,
    pub alive: Vec<bool>,
}

impl Drop for RealCluster {
    fn drop(&mut self) {
        self.log.stop.store(true, Ordering::SeqCst);
        for c in self.children.iter_mut() {
            let _ = c.kill();
            let _ = c.wait();
        }
        for n in self.names.iter() {
            let _ = TcpStream::connect(n); // wake the accept loops so that they see the stop flag
        }
    }
}

impl RealCluster {
    /// n1 is started first (oldest), every later node is started with the earlier ones as its
    /// replicate list, and must settle as a secondary before the next one starts
    pub fn start(n: usize) -> Result<RealCluster, String> {
        let log = Arc::new(WireLog { lines: Mutex::new(vec![]), last: Mutex::new(Instant::now()), conns: AtomicUsize::new(0), stop: AtomicBool::new(false) });
        let mut rc = RealCluster { n, children: vec![], names: vec![], direct: vec![], log: log.clone(), dirs: vec![], alive: vec![] };
        let mut listeners = vec![];
        for _ in 0..n {
            let l = TcpListener::bind("127.0.0.1:0").map_err(|e| e.to_string())?;
            rc.names.push(format!("127.0.0.1:{}", l.local_addr().unwrap().port()));
            listeners.push(l);
            rc.direct.push(format!("127.0.0.1:{}", crate::http::free_port()));
        }
        for (i, l) in listeners.into_iter().enumerate() {
            start_proxy(l, rc.direct[i].clone(), i, log.clone());
        }
        for i in 0..n {
            let dir = fresh_dir(&format!("real-n{}", i + 1));
            rc.dirs.push(dir);
            rc.alive.push(false);
            let child = rc.spawn_node(i)?;
            rc.children.push(child);
            rc.alive[i] = true;
            rc.wait_up_and_settled(i)?;
        }
        Ok(rc)
    }

    /// the node process for slot i, with the other live nodes as its replicate list
    fn spawn_node(&self, i: usize) -> Result<Child, String> {
        let exe = crate::util::self_exe();
        let others: Vec<String> = (0..self.names.len()).filter(|j| *j != i && self.alive.get(*j).copied().unwrap_or(false)).map(|j| self.names[j].clone()).collect();
        let replicate = if others.is_empty() { "-".to_string() } else { others.join(",") };
        Command::new(&exe)
            .args(["realnode", self.dirs[i].to_str().unwrap(), &self.direct[i], &self.names[i], &replicate])
            .env("NUN_LOG_LEVEL", "Off")
            .env("NUN_DECLUTTER_INTERVAL", "1")
            .env("RUST_LOG", "off")
            .stdin(Stdio::null())
            .stdout(Stdio::null())
            .stderr(Stdio::null())
            .spawn()
            .map_err(|e| format!("spawn realnode: {}", e))
    }

    /// node i answers on its port, and every live node sees n1 as primary and the others as secondaries
    fn wait_up_and_settled(&self, i: usize) -> Result<(), String> {
        let t0 = Instant::now();
        loop {
            if TcpStream::connect(&self.direct[i]).is_ok() {
                break;
            }
            if t0.elapsed() > Duration::from_secs(20) {
                return Err(format!("real node n{} did not open its port", i + 1));
            }
            std::thread::sleep(Duration::from_millis(10));
        }
        let live: Vec<usize> = (0..self.names.len()).filter(|j| self.alive.get(*j).copied().unwrap_or(false)).collect();
        let t0 = Instant::now();
        loop {
            let ok = live.iter().all(|j| {
                let st = self.cluster_state(*j).unwrap_or_default().replace("(self)", "").replace("(Connected)", "");
                live.iter().all(|k| st.contains(&format!("{}:{}", self.names[*k], if *k == 0 { "Primary" } else { "Secoundary" })))
            });
            if ok {
                break;
            }
            if t0.elapsed() > Duration::from_secs(30) {
                let views: Vec<String> = live.iter().map(|j| self.cluster_state(*j).unwrap_or_else(|e| e)).collect();
                return Err(format!("real cluster of {} did not settle: {:?}", live.len(), views));
            }
            std::thread::sleep(Duration::from_millis(50));
        }
        self.wait_quiet(400, 15000)
    }

    /// SIGKILL; returns when the survivors no longer list the node
    pub fn kill(&mut self, i: usize) -> Result<(), String> {
        let _ = self.children[i].kill();
        let _ = self.children[i].wait();
        self.alive[i] = false;
        let t0 = Instant::now();
        loop {
            let gone = (0..self.names.len()).filter(|j| self.alive[*j]).all(|j| !self.cluster_state(j).unwrap_or_default().contains(&self.names[i]));
            if gone {
                break;
            }
            if t0.elapsed() > Duration::from_secs(10) {
                return Err(format!("the survivors still list n{} 10 s after it was killed", i + 1));
            }
            std::thread::sleep(Duration::from_millis(50));
        }
        self.wait_quiet(300, 10000)
    }

    /// the node starts again from its data directory and rejoins
    pub fn restart(&mut self, i: usize) -> Result<(), String> {
        let child = self.spawn_node(i)?;
        self.children[i] = child;
        self.alive[i] = true;
        self.wait_up_and_settled(i)
    }

    pub fn admin(&self, node: usize) -> Result<RealClient, String> {
        let mut c = RealClient::connect(&self.direct[node])?;
        c.cmd(&format!("auth {} {}", USER, PWD))?;
        Ok(c)
    }

    pub fn cluster_state(&self, node: usize) -> Result<String, String> {
        let mut c = self.admin(node)?;
        let r = c.cmd("cluster-state")?;
        Ok(r.join(" "))
    }

    /// no line on any inter-node connection for `quiet_ms`
    pub fn wait_quiet(&self, quiet_ms: u64, max_ms: u64) -> Result<(), String> {
        let t0 = Instant::now();
        loop {
            let idle = self.log.last.lock().unwrap().elapsed();
            if idle >= Duration::from_millis(quiet_ms) {
                return Ok(());
            }
            if t0.elapsed() > Duration::from_millis(max_ms) {
                return Err(format!("the real cluster did not go quiet within {} ms", max_ms));
            }
            std::thread::sleep(Duration::from_millis(20));
        }
    }

    /// silence in the protocol's own terms: every copy (`rp <id> ..`) on a live link has its
    /// acknowledgement, and no line for `quiet_ms`
    pub fn wait_settled(&self, quiet_ms: u64, max_ms: u64) -> Result<(), String> {
        let t0 = Instant::now();
        loop {
            let unacked = {
                let all = self.log.lines.lock().unwrap();
                let mut open: Vec<(usize, String)> = vec![];
                for l in all.iter() {
                    let t = l.line.trim();
                    if l.fwd {
                        if let Some(rest) = t.strip_prefix("rp ") {
                            open.push((l.conn, rest.split(' ').next().unwrap_or("").to_string()));
                        }
                    } else if let Some(rest) = t.strip_prefix("ack ") {
                        let id = rest.split(' ').next().unwrap_or("");
                        if let Some(p) = open.iter().position(|(c, i)| *c == l.conn && i == id) {
                            open.remove(p);
                        }
                    }
                }
                open.len()
            };
            let idle = self.log.last.lock().unwrap().elapsed();
            if unacked == 0 && idle >= Duration::from_millis(quiet_ms) {
                return Ok(());
            }
            if t0.elapsed() > Duration::from_millis(max_ms) {
                return Err(format!("the real cluster did not settle within {} ms ({} copies without acknowledgement, last line {} ms ago)", max_ms, unacked, idle.as_millis()));
            }
            std::thread::sleep(Duration::from_millis(10));
        }
    }

    pub fn log_len(&self) -> usize {
        self.log.lines.lock().unwrap().len()
    }

    pub fn lines_from(&self, from: usize) -> Vec<WireLine> {
        self.log.lines.lock().unwrap()[from..].to_vec()
    }

    fn rename(&self, s: &str) -> String {
        let mut out = s.to_string();
        for (i, n) in self.names.iter().enumerate() {
            out = out.replace(n.as_str(), &node_name(i));
        }
        out
    }

    /// who opened connection `conn` (from its handshake), and what kind of connection it is
    fn classify(&self, all: &[WireLine], conn: usize) -> (Option<usize>, &'static str) {
        for l in all.iter().filter(|l| l.conn == conn && l.fwd) {
            let t = l.line.trim();
            for (pre, kind) in [("set-primary ", "link"), ("set-secoundary ", "link"), ("join ", "join")] {
                if let Some(rest) = t.strip_prefix(pre) {
                    let who = self.names.iter().position(|n| n == rest.trim());
                    return (who, kind);
                }
            }
        }
        (None, "other")
    }

    /// per replication link "(from,to)#k": (opener -> server lines, server -> opener lines), names renamed
    pub fn link_transcripts(&self) -> BTreeMap<String, (Vec<String>, Vec<String>)> {
        let all = self.log.lines.lock().unwrap().clone();
        let conns = self.log.conns.load(Ordering::SeqCst);
        let mut nth: BTreeMap<(usize, usize), usize> = BTreeMap::new();
        let mut out = BTreeMap::new();
        for c in 0..conns {
            let (who, kind) = self.classify(&all, c);
            if kind != "link" {
                continue;
            }
            let server = match all.iter().find(|l| l.conn == c) {
                Some(l) => l.server,
                None => continue,
            };
            let from = who.unwrap_or(99);
            let k = nth.entry((from, server)).or_insert(0);
            let name = format!("n{}->n{}#{}", from + 1, server + 1, *k);
            *k += 1;
            let fwd: Vec<String> = all.iter().filter(|l| l.conn == c && l.fwd && l.line != "<eof>").map(|l| self.rename(l.line.trim())).collect();
            let mut back: Vec<String> = all.iter().filter(|l| l.conn == c && !l.fwd && l.line != "<eof>").map(|l| self.rename(l.line.trim())).collect();
            // the greeting handle_client writes when the connection is accepted
            if back.first().map(|l| l == "ok").unwrap_or(false) {
                back.remove(0);
            }
            out.insert(name, (fwd, back));
        }
        out
    }

    /// (from, to, line) of the replication links only, names renamed, for lines logged at or after `from_idx`
    pub fn traffic_from(&self, from_idx: usize) -> Vec<(usize, usize, bool, String)> {
        let all = self.log.lines.lock().unwrap().clone();
        let mut cache: BTreeMap<usize, (Option<usize>, &'static str)> = BTreeMap::new();
        let mut out = vec![];
        for l in all[from_idx.min(all.len())..].iter() {
            let (who, kind) = *cache.entry(l.conn).or_insert_with(|| self.classify(&all, l.conn));
            if kind != "link" || l.line == "<eof>" {
                continue;
            }
            let opener = who.unwrap_or(99);
            if l.fwd {
                out.push((opener, l.server, false, self.rename(l.line.trim())));
            } else {
                out.push((l.server, opener, true, self.rename(l.line.trim())));
            }
        }
        out
    }

    /// database t as node `i` serves it to an administrator: key -> (value, version)
    pub fn data(&self, node: usize, db: &str, token: &str, keys: &[&str]) -> Result<BTreeMap<String, String>, String> {
        let mut c = self.admin(node)?;
        let mut out = BTreeMap::new();
        let sel = c.cmd(&format!("use-db {} {}", db, token))?;
        if sel.last().map(|l| l.starts_with("error")).unwrap_or(true) {
            out.insert("<database>".to_string(), format!("{:?}", sel));
            return Ok(out);
        }
        let ks = c.cmd("keys")?;
        out.insert("<keys>".to_string(), ks.iter().filter(|l| l.starts_with("keys")).cloned().collect::<Vec<_>>().join("|").replace("$connections,", ""));
        for k in keys {
            let r = c.cmd(&format!("get-safe {}", k))?;
            out.insert(k.to_string(), r.iter().filter(|l| l.trim() != "ok").map(|l| l.trim().to_string()).collect::<Vec<_>>().join("|"));
        }
        Ok(out)
    }
}

// ---------------------------------------------------------------------------------------------
// renaming of run-specific numbers

/// op ids (numbers of 13+ digits) are renamed by order of first appearance in `lines`; the process
/// id of an `election candidate` line is renamed after the node it names; a `replicate-since`
/// time is 0 or T
pub fn canon_link(fwd: &[String], back: &[String]) -> (Vec<String>, Vec<String>) {
    let mut ids: Vec<String> = vec![];
    let mut canon = |l: &String| -> String {
        let toks: Vec<&str> = l.split(' ').collect();
        let mut out: Vec<String> = vec![];
        for (i, t) in toks.iter().enumerate() {
            let is_num = !t.is_empty() && t.chars().all(|c| c.is_ascii_digit());
            if is_num && i >= 2 && toks[i - 2] == "election" && toks[i - 1] == "candidate" {
                out.push(format!("PID({})", toks.get(i + 1).unwrap_or(&"")));
            } else if is_num && i >= 2 && toks[i - 2] == "replicate-since" {
                out.push(if *t == "0" { "0".into() } else { "T".into() });
            } else if is_num && t.len() >= 13 {
                let pos = match ids.iter().position(|x| x == t) {
                    Some(p) => p,
                    None => {
                        ids.push(t.to_string());
                        ids.len() - 1
                    }
                };
                out.push(format!("#{}", pos));
            } else {
                out.push(t.to_string());
            }
        }
        out.join(" ")
    };
    let f: Vec<String> = fwd.iter().map(|l| canon(l)).collect();
    let b: Vec<String> = back.iter().map(|l| canon(l)).collect();
    (f, b)
}

// ---------------------------------------------------------------------------------------------
// the scenario, on both sides

#[derive(Clone, Debug)]
pub struct WireOp {
    pub node: usize,
    pub cmd: String,
}

pub struct WireScenario {
    pub nodes: usize,
    pub strategy: &'static str,
    pub init: Vec<String>,
    pub ops: Vec<WireOp>,
}

pub struct RealRun {
    /// per op: inter-node lines (from, to, reply-on-incoming-connection?, line) until silence
    pub per_op: Vec<Vec<(usize, usize, bool, String)>>,
    /// per op: every node's view of database t afterwards
    pub data_after: Vec<Vec<BTreeMap<String, String>>>,
    pub replies: Vec<Vec<String>>,
    pub links: BTreeMap<String, (Vec<String>, Vec<String>)>,
    pub roles: Vec<String>,
    pub wall_ms: u128,
    /// the operation after which the cluster did not settle (the run stops there)
    pub unsettled: Option<String>,
    /// lines seen on the links in a silent period after the last operation had settled
    pub after_silence: Vec<(usize, usize, bool, String)>,
}

pub const WIRE_KEYS: [&str; 3] = ["k", "c", "j"];

pub fn run_real(sc: &WireScenario, quiet_ms: u64) -> Result<RealRun, String> {
    let t0 = Instant::now();
    let mut unsettled: Option<String> = None;
    let rc = RealCluster::start(sc.nodes)?;
    let mut admin = rc.admin(0)?;
    admin.cmd(&format!("create-db t tok {}", sc.strategy))?;
    admin.cmd("use-db t tok")?;
    for l in sc.init.iter() {
        admin.cmd(l)?;
    }
    rc.wait_quiet(300, 10000)?;
    // one ready session per node that issues commands (as cluster::build does)
    let mut sessions: BTreeMap<usize, RealClient> = BTreeMap::new();
    for op in sc.ops.iter() {
        if !sessions.contains_key(&op.node) {
            let mut c = rc.admin(op.node)?;
            c.cmd("use-db t tok")?;
            sessions.insert(op.node, c);
        }
    }
    rc.wait_quiet(300, 10000)?;
    let mut per_op = vec![];
    let mut data_after = vec![];
    let mut replies = vec![];
    for op in sc.ops.iter() {
        let from = rc.log_len();
        let r = sessions.get_mut(&op.node).unwrap().cmd(&op.cmd)?;
        replies.push(r);
        std::thread::sleep(Duration::from_millis(20));
        let settled = rc.wait_settled(quiet_ms, 8000);
        if op.cmd.starts_with("snapshot ") {
            // the declutter timer of every node fires once a second
            std::thread::sleep(Duration::from_millis(2300));
        }
        per_op.push(rc.traffic_from(from));
        if let Err(e) = settled {
            unsettled = Some(format!("after n{} `{}`: {}", op.node + 1, op.cmd, e));
            data_after.push(vec![]);
            break;
        }
        let mut views = vec![];
        for i in 0..sc.nodes {
            views.push(rc.data(i, "t", "tok", &WIRE_KEYS)?);
        }
        data_after.push(views);
    }
    // afterwards: nothing may be sent without a client operation
    let before = rc.log_len();
    std::thread::sleep(Duration::from_millis(3 * quiet_ms));
    let after_silence = rc.traffic_from(before);
    let roles = (0..sc.nodes).map(|i| rc.cluster_state(i).map(|s| rc.rename(&s)).unwrap_or_else(|e| e)).collect();
    let links = rc.link_transcripts();
    for d in rc.dirs.iter() {
        let _ = std::fs::remove_dir_all(d);
    }
    Ok(RealRun { per_op, data_after, replies, links, roles, wall_ms: t0.elapsed().as_millis(), unsettled, after_silence })
}

pub struct ModelRun {
    pub links: BTreeMap<String, (Vec<String>, Vec<String>)>,
    pub per_op: Vec<Vec<(usize, usize, bool, String)>>,
    pub steps: u64,
}

/// the same scenario on the NET cluster under its default schedule (first enabled transition)
pub fn run_model(sc: &WireScenario) -> Result<ModelRun, String> {
    init_sleep_sites();
    let mut w = settled_cluster(sc.nodes)?;
    let mut lines: Vec<String> = vec![format!("auth {} {}", USER, PWD), format!("create-db t tok {}", sc.strategy), "use-db t tok".into()];
    lines.extend(sc.init.iter().cloned());
    let refs: Vec<&str> = lines.iter().map(|s| s.as_str()).collect();
    w.add_client(0, &refs, false);
    w.run_to_quiescence(20000)?;
    w.clients.clear();
    let mut session_of: BTreeMap<usize, usize> = BTreeMap::new();
    for op in sc.ops.iter() {
        if !session_of.contains_key(&op.node) {
            let ci = w.add_client(op.node, &[&format!("auth {} {}", USER, PWD), "use-db t tok"], false);
            session_of.insert(op.node, ci);
        }
    }
    w.run_to_quiescence(20000)?;
    let mut per_op = vec![];
    for op in sc.ops.iter() {
        let ci = session_of[&op.node];
        w.traffic.clear();
        w.clients[ci].script.push_back(op.cmd.clone());
        w.clients[ci].done = false;
        w.run_to_quiescence(20000)?;
        if op.cmd.starts_with("snapshot ") {
            w.run_snapshot_queues();
        }
        per_op.push(w.traffic.iter().map(|(f, t, l)| (*f, *t, l.starts_with(REPLY_MARK), l.trim_start_matches(REPLY_MARK).to_string())).collect());
    }
    let mut nth: BTreeMap<(usize, usize), usize> = BTreeMap::new();
    let mut links: BTreeMap<String, (Vec<String>, Vec<String>)> = BTreeMap::new();
    let mut name_of: Vec<String> = vec![];
    for l in w.links.iter() {
        let k = nth.entry((l.from, l.to)).or_insert(0);
        name_of.push(format!("n{}->n{}#{}", l.from + 1, l.to + 1, *k));
        *k += 1;
    }
    for (li, fwd, line) in w.wire.iter() {
        let e = links.entry(name_of[*li].clone()).or_default();
        if *fwd {
            e.0.push(line.trim().to_string());
        } else {
            e.1.push(line.trim().to_string());
        }
    }
    let steps = w.steps;
    if !w.problems.is_empty() {
        let p = format!("{:?}", w.problems);
        w.shutdown();
        return Err(format!("the model run reported problems: {}", p));
    }
    w.shutdown();
    Ok(ModelRun { links, per_op, steps })
}

pub struct Conformance {
    pub links_compared: usize,
    pub lines_compared: usize,
    pub differences: Vec<String>,
}

/// A catch-up (the answer to `replicate-since`) walks hash maps: the databases, and the keys of
/// each database, come in the iteration order of a map instance, which differs between two
/// processes and between two maps of one process. Its commands name distinct databases / keys, so
/// that order carries no meaning. A maximal run of lines that are neither `rp`-wrapped nor part of
/// the handshake is split into per-database blocks (a block starts at `create-db`), the lines after
/// the first are sorted inside each block, and the blocks are sorted.
fn canon_catch_up(lines: &[String]) -> (Vec<String>, bool) {
    let is_plain = |l: &String| !(l.starts_with("rp ") || l.starts_with("auth ") || l.starts_with("set-primary ") || l.starts_with("set-secoundary ") || l.starts_with("replicate-since ") || l.starts_with("replicate-join "));
    let mut out: Vec<String> = vec![];
    let mut run: Vec<String> = vec![];
    let mut any = false;
    let mut flush = |run: &mut Vec<String>, out: &mut Vec<String>| {
        if run.is_empty() {
            return;
        }
        let mut blocks: Vec<Vec<String>> = vec![];
        for l in run.drain(..) {
            if l.starts_with("create-db ") || blocks.is_empty() {
                blocks.push(vec![l]);
            } else {
                blocks.last_mut().unwrap().push(l);
            }
        }
        for b in blocks.iter_mut() {
            if b.len() > 2 {
                b[1..].sort();
            }
        }
        blocks.sort();
        for b in blocks {
            out.extend(b);
        }
    };
    for l in lines {
        if is_plain(l) {
            run.push(l.clone());
            any = true;
        } else {
            flush(&mut run, &mut out);
            out.push(l.clone());
        }
    }
    flush(&mut run, &mut out);
    (out, any)
}

pub fn compare(real: &RealRun, model: &ModelRun) -> Conformance {
    compare_opt(real, model, false)
}

pub fn compare_opt(real: &RealRun, model: &ModelRun, catch_up_blocks: bool) -> Conformance {
    let mut c = Conformance { links_compared: 0, lines_compared: 0, differences: vec![] };
    let names: std::collections::BTreeSet<&String> = real.links.keys().chain(model.links.keys()).collect();
    for n in names {
        match (real.links.get(n), model.links.get(n)) {
            (Some(r), Some(m)) => {
                let (mut rf, mut rb) = canon_link(&r.0, &r.1);
                let (mut mf, mut mb) = canon_link(&m.0, &m.1);
                if catch_up_blocks {
                    let (a, any_r) = canon_catch_up(&rf);
                    let (b, any_m) = canon_catch_up(&mf);
                    rf = a;
                    mf = b;
                    if any_r || any_m {
                        // the replies follow the order of the commands they answer: compared as a multiset
                        rb.sort();
                        mb.sort();
                    }
                }
                c.links_compared += 1;
                c.lines_compared += rf.len() + rb.len();
                for (dir, a, b) in [("opener->server", &rf, &mf), ("server->opener", &rb, &mb)] {
                    if a != b {
                        let i = a.iter().zip(b.iter()).position(|(x, y)| x != y).unwrap_or(a.len().min(b.len()));
                        c.differences.push(format!(
                            "link {} {}: line {} real `{}` model `{}` (real {} lines, model {} lines)",
                            n,
                            dir,
                            i,
                            a.get(i).map(|s| s.as_str()).unwrap_or("<end>"),
                            b.get(i).map(|s| s.as_str()).unwrap_or("<end>"),
                            a.len(),
                            b.len()
                        ));
                    }
                }
            }
            (Some(_), None) => c.differences.push(format!("link {} exists only in the real run", n)),
            (None, Some(_)) => c.differences.push(format!("link {} exists only in the model run", n)),
            _ => {}
        }
    }
    c
}

pub fn default_scenario(nodes: usize, strategy: &'static str) -> WireScenario {
    let mut ops = vec![];
    let last = nodes - 1;
    for (node, cmd) in [
        (0, "set k v1"),
        (last, "set k v2"),
        (0, "increment c"),
        (last, "increment c 3"),
        (0, "set-safe k 9 s9"),
        (last, "remove k"),
        (0, "set j  two words "),
        (0, "remove j"),
        (0, "create-user bob bt"),
        (0, "set-permissions bob rw k*|r c*"),
        (0, "get k"),
        (last, "get c"),
        // snapshots are carried out by every node's declutter timer; what they persist or
        // reclaim decides the versions later writes get
        (0, "set k w1"),
        (0, "snapshot false t"),
        (0, "remove k"),
        (0, "snapshot true t"),
        (0, "set k w2"),
        (last, "set k w3"),
    ] {
        ops.push(WireOp { node, cmd: cmd.to_string() });
    }
    WireScenario { nodes, strategy, init: vec!["set k v0".into(), "set c 5".into()], ops }
}

/// debugging aid: `nunmc wire <nodes> [strategy]`
pub fn demo(nodes: usize, strategy: &'static str) -> i32 {
    let sc = default_scenario(nodes, strategy);
    let real = match run_real(&sc, 250) {
        Ok(r) => r,
        Err(e) => {
            println!("real run failed: {}", e);
            return 2;
        }
    };
    println!("real run: {} ms, roles {:?}", real.wall_ms, real.roles);
    for (i, op) in sc.ops.iter().enumerate() {
        println!("op n{} `{}` -> {:?}", op.node + 1, op.cmd, real.replies[i]);
        for (f, t, reply, l) in real.per_op[i].iter() {
            println!("      n{} -> n{} {}{}", f + 1, t + 1, if *reply { "<- " } else { "" }, l);
        }
        println!("      data: {:?}", real.data_after[i]);
    }
    let model = match run_model(&sc) {
        Ok(m) => m,
        Err(e) => {
            println!("model run failed: {}", e);
            return 2;
        }
    };
    for (n, (f, b)) in real.links.iter() {
        let (f, b) = canon_link(f, b);
        println!("REAL  {} fwd {:?}\n            back {:?}", n, f, b);
        if let Some((mf, mb)) = model.links.get(n) {
            let (mf, mb) = canon_link(mf, mb);
            println!("MODEL {} fwd {:?}\n            back {:?}", n, mf, mb);
        }
    }
    let c = compare(&real, &model);
    println!("links compared {}, lines {}, differences {:?}", c.links_compared, c.lines_compared, c.differences);
    if c.differences.is_empty() {
        0
    } else {
        1
    }
}

// ---------------------------------------------------------------------------------------------
// the stage as the property checks use it

pub struct StageOut {
    pub scenario: WireScenario,
    pub real: RealRun,
    pub conf: Conformance,
    pub real_runs: usize,
    pub model_steps: u64,
}

/// Runs the scenario on the model once and on the real cluster until the two agree (at most three
/// real runs, with longer silence windows: a window that is too short on a loaded machine lets the
/// next operation start early, which reorders lines without being a defect of anything).
/// Err = the stage itself could not be run (machinery).
pub fn stage(nodes: usize, strategy: &'static str) -> Result<StageOut, String> {
    let sc = default_scenario(nodes, strategy);
    let model = run_model(&sc)?;
    let mut last_err = String::new();
    let mut best: Option<(RealRun, Conformance)> = None;
    let mut runs = 0;
    for attempt in 0..3u64 {
        runs += 1;
        match run_real(&sc, 250 * (attempt + 1)) {
            Ok(real) => {
                let conf = compare(&real, &model);
                let good = conf.differences.is_empty() && real.unsettled.is_none();
                best = Some((real, conf));
                if good {
                    break;
                }
            }
            Err(e) => last_err = e,
        }
    }
    match best {
        Some((real, conf)) => Ok(StageOut { scenario: sc, real, conf, real_runs: runs, model_steps: model.steps }),
        None => Err(format!("the real cluster could not be run: {}", last_err)),
    }
}

fn parse_view(v: &str) -> Option<(String, i32)> {
    // "value-version <version> <value>"
    let rest = v.strip_prefix("value-version ")?;
    let (ver, val) = rest.split_once(' ').unwrap_or((rest, ""));
    let ver: i32 = ver.parse().ok()?;
    if val == "<Empty>" {
        return None;
    }
    Some((val.to_string(), ver))
}

/// C04's oracle on the real run: after every operation every node serves the primary's data.
/// Shapes use the wording of props::c04::converged so that the known findings apply unchanged.
pub fn real_convergence(out: &StageOut) -> Vec<(String, String, String)> {
    let sc = &out.scenario;
    let mut res = vec![];
    for (oi, views) in out.real.data_after.iter().enumerate() {
        if views.len() < sc.nodes {
            continue;
        }
        let ops_so_far = &sc.ops[..=oi];
        for i in 1..sc.nodes {
            for (k, pv) in views[0].iter() {
                let sv = views[i].get(k).cloned().unwrap_or_default();
                if *pv == sv {
                    continue;
                }
                let writers: Vec<String> = ops_so_far
                    .iter()
                    .filter(|o| {
                        let mut p = o.cmd.split(' ');
                        let (c, a) = (p.next().unwrap_or(""), p.next().unwrap_or(""));
                        matches!(c, "set" | "set-safe" | "remove" | "increment") && a == k
                    })
                    .map(|o| format!("{}:{}", if o.node == 0 { "primary" } else { "secondary" }, o.cmd.split(' ').next().unwrap_or("")))
                    .collect();
                let wrote_here = ops_so_far.iter().any(|o| o.node == i && o.cmd.split(' ').nth(1) == Some(k.as_str()));
                let origin = if wrote_here { format!(" [the secondary issued a write to it, writers {}]", writers.join(" ")) } else { String::new() };
                let kind = if k.starts_with('<') {
                    format!("key listing differs{}", origin)
                } else {
                    match (parse_view(pv), parse_view(&sv)) {
                        (Some(x), Some(y)) if x.0 == y.0 => format!("same value, secondary version {} the primary's by {}{}", if y.1 > x.1 { "ahead of" } else { "behind" }, (y.1 - x.1).abs(), origin),
                        (Some(_), Some(_)) => format!("value differs{}", origin),
                        (Some(_), None) => format!("live on the primary, absent on the secondary{}", origin),
                        (None, Some(_)) => format!("absent on the primary, live on the secondary{}", origin),
                        (None, None) => continue, // versions of removed keys are not compared (as in the model stage)
                    }
                };
                res.push((
                    "replica-differs-from-primary".to_string(),
                    kind,
                    format!("real cluster ({} processes, real TCP): after n{} `{}` t.{} is {:?} on the primary and {:?} on n{}", sc.nodes, sc.ops[oi].node + 1, sc.ops[oi].cmd, k, pv, sv, i + 1),
                ));
            }
        }
    }
    res
}

pub fn evidence(out: &StageOut) -> serde_json::Value {
    serde_json::json!({
        "scenario": out.scenario.ops.iter().map(|o| format!("n{}:`{}`", o.node + 1, o.cmd)).collect::<Vec<_>>(),
        "nodes": out.scenario.nodes,
        "real_node_processes": out.scenario.nodes,
        "replication_links_compared": out.conf.links_compared,
        "lines_compared": out.conf.lines_compared,
        "differences": out.conf.differences,
        "real_runs_needed": out.real_runs,
        "real_wall_ms": out.real.wall_ms as u64,
        "model_steps": out.model_steps,
        "what": "the scenario is run on real node processes (mirror of main.rs::start_db, real start_tcp_client / start_replication over TCP, wall clock, real sleeps) behind logging proxies, and on the NET model under its default schedule; per connection and direction the line sequences must be identical after renaming addresses, op ids and process ids",
    })
}

// ---------------------------------------------------------------------------------------------
// rejoin: a node is killed, the primary goes on, the node restarts from its disk and resynchronises

use crate::props::c05::{Case, Joiner, Op, View};

fn op_lines(o: &Op) -> Vec<String> {
    match o {
        Op::CreateDb(d, s) => vec![format!("create-db {} tok-{} {}", d, d, s)],
        Op::Set(d, k, v) => vec![format!("use-db {} tok-{}", d, d), format!("set {} {}", k, v)],
        Op::Remove(d, k) => vec![format!("use-db {} tok-{}", d, d), format!("remove {}", k)],
        Op::Inc(d, k) => vec![format!("use-db {} tok-{}", d, d), format!("increment {}", k)],
        Op::Snapshot(d) => vec![format!("snapshot false {}", d)],
        Op::SnapshotReclaim(d) => vec![format!("snapshot true {}", d)],
    }
}

pub fn rejoin_case() -> Case {
    Case {
        before: vec![Op::CreateDb("t", "none"), Op::Set("t", "k", "v0"), Op::Set("t", "c", "5"), Op::Set("t", "old", "gone"), Op::Snapshot("t"), Op::Set("t", "tail", "t1")],
        away: vec![Op::Set("t", "k", "v1"), Op::Remove("t", "old"), Op::Set("t", "j", "two words"), Op::Inc("t", "c"), Op::CreateDb("d2", "newer"), Op::Set("d2", "x", "")],
        joiner: Joiner::FromDisk,
    }
}

impl RealCluster {
    fn real_op(&self, node: usize, o: &Op) -> Result<(), String> {
        let mut c = self.admin(node)?;
        for l in op_lines(o) {
            c.cmd(&l)?;
        }
        drop(c);
        std::thread::sleep(Duration::from_millis(20));
        self.wait_settled(250, 8000)?;
        if let Op::Snapshot(_) | Op::SnapshotReclaim(_) = o {
            // the declutter timer of every node fires once a second
            std::thread::sleep(Duration::from_millis(2300));
        }
        Ok(())
    }

    /// the databases of node i as an administrator reads them (strategy is not visible to clients: 0)
    fn real_view(&self, node: usize, dbs: &[&str]) -> Result<View, String> {
        let mut out = View::new();
        for d in dbs {
            let mut c = self.admin(node)?;
            let sel = c.cmd(&format!("use-db {} tok-{}", d, d))?;
            if sel.last().map(|l| l.starts_with("error")).unwrap_or(true) {
                continue;
            }
            let ks = c.cmd("keys")?;
            let listing = ks.iter().find(|l| l.starts_with("keys ")).cloned().unwrap_or_default();
            let mut keys = BTreeMap::new();
            let mut token = None;
            for k in listing.trim_start_matches("keys ").split(',') {
                let k = k.trim();
                if k.is_empty() || k == "$connections" {
                    continue;
                }
                let r = c.cmd(&format!("get-safe {}", k))?;
                let line = r.iter().find(|l| l.starts_with("value-version ")).cloned().unwrap_or_default();
                let rest = line.trim_start_matches("value-version ");
                let (ver, val) = rest.split_once(' ').unwrap_or((rest, ""));
                if k == "$$token" {
                    token = Some(val.to_string());
                } else {
                    keys.insert(k.to_string(), (val.to_string(), ver.parse::<i32>().unwrap_or(-99)));
                }
            }
            out.insert(d.to_string(), (token, 0, keys));
        }
        Ok(out)
    }
}

pub struct RejoinOut {
    pub real_links: BTreeMap<String, (Vec<String>, Vec<String>)>,
    pub model_links: BTreeMap<String, (Vec<String>, Vec<String>)>,
    pub case: Case,
    pub conf: Conformance,
    pub findings: Vec<(String, String, String)>,
    pub real_runs: usize,
    pub real_wall_ms: u128,
    pub primary_view: View,
    pub joiner_view: View,
}

fn rejoin_real(c: &Case) -> Result<(BTreeMap<String, (Vec<String>, Vec<String>)>, View, View, u128), String> {
    let t0 = Instant::now();
    let mut rc = RealCluster::start(2)?;
    for o in c.before.iter() {
        rc.real_op(0, o)?;
    }
    rc.kill(1)?;
    for o in c.away.iter() {
        rc.real_op(0, o)?;
    }
    rc.restart(1)?;
    rc.wait_settled(500, 15000)?;
    let links = rc.link_transcripts();
    let p = rc.real_view(0, &["t", "d2"])?;
    let j = rc.real_view(1, &["t", "d2"])?;
    for d in rc.dirs.iter() {
        let _ = std::fs::remove_dir_all(d);
    }
    Ok((links, p, j, t0.elapsed().as_millis()))
}

fn rejoin_model(c: &Case) -> Result<BTreeMap<String, (Vec<String>, Vec<String>)>, String> {
    init_sleep_sites();
    let mut w = settled_cluster_clocked(2, true)?;
    let r = (|| -> Result<(), String> {
        for o in c.before.iter() {
            crate::props::c05::exec_op(&mut w, o)?;
        }
        w.kill_node(1)?;
        w.run_to_quiescence(20000)?;
        for o in c.away.iter() {
            crate::props::c05::exec_op(&mut w, o)?;
        }
        w.restart_node(1, false, 200)?;
        w.join_cluster(1)?;
        w.run_to_quiescence(50000)?;
        Ok(())
    })();
    let mut nth: BTreeMap<(usize, usize), usize> = BTreeMap::new();
    let mut name_of: Vec<String> = vec![];
    for l in w.links.iter() {
        let k = nth.entry((l.from, l.to)).or_insert(0);
        name_of.push(format!("n{}->n{}#{}", l.from + 1, l.to + 1, *k));
        *k += 1;
    }
    let mut links: BTreeMap<String, (Vec<String>, Vec<String>)> = BTreeMap::new();
    for (li, fwd, line) in w.wire.iter() {
        let e = links.entry(name_of[*li].clone()).or_default();
        if *fwd {
            e.0.push(line.trim().to_string());
        } else {
            e.1.push(line.trim().to_string());
        }
    }
    w.shutdown();
    r?;
    Ok(links)
}

/// C05 on real node processes: the joiner is killed (SIGKILL), the primary goes on, the joiner
/// restarts from its directory and resynchronises over real TCP; the link transcripts of both
/// lives must equal the model's, and the joiner must serve the primary's data (judged with C05's
/// own comparison, so the known findings apply unchanged).
pub fn rejoin_stage() -> Result<RejoinOut, String> {
    let case = rejoin_case();
    let model_links = rejoin_model(&case)?;
    let mut last_err = String::new();
    let mut best = None;
    let mut runs = 0;
    for _ in 0..2 {
        runs += 1;
        match rejoin_real(&case) {
            Ok((links, p, j, ms)) => {
                let fake_real = RealRun { per_op: vec![], data_after: vec![], replies: vec![], links: links.clone(), roles: vec![], wall_ms: ms, unsettled: None, after_silence: vec![] };
                let fake_model = ModelRun { links: model_links.clone(), per_op: vec![], steps: 0 };
                let conf = compare_opt(&fake_real, &fake_model, true);
                let good = conf.differences.is_empty();
                best = Some((conf, p, j, ms, links));
                if good {
                    break;
                }
            }
            Err(e) => last_err = e,
        }
    }
    match best {
        Some((conf, p, j, ms, links)) => {
            let findings = crate::props::c05::compare_views(&case, &p, &j);
            Ok(RejoinOut { real_links: links, model_links, case, conf, findings, real_runs: runs, real_wall_ms: ms, primary_view: p, joiner_view: j })
        }
        None => Err(format!("the real rejoin could not be run: {}", last_err)),
    }
}

pub fn rejoin_demo() -> i32 {
    match rejoin_stage() {
        Ok(o) => {
            println!("case: {}", o.case.name());
            println!("real runs {}, {} ms; links compared {}, lines {}, differences:", o.real_runs, o.real_wall_ms, o.conf.links_compared, o.conf.lines_compared);
            for d in o.conf.differences.iter() {
                println!("   {}", d);
            }
            for (n, (f, b)) in o.real_links.iter() {
                let (f, b) = canon_link(f, b);
                println!("REAL  {} fwd {:?}\n      back {:?}", n, f, b);
                if let Some((mf, mb)) = o.model_links.get(n) {
                    let (mf, mb) = canon_link(mf, mb);
                    println!("MODEL {} fwd {:?}\n      back {:?}", n, mf, mb);
                }
            }
            println!("primary {:?}", o.primary_view);
            println!("joiner  {:?}", o.joiner_view);
            for f in o.findings.iter() {
                println!("finding {:?}", f);
            }
            0
        }
        Err(e) => {
            println!("failed: {}", e);
            2
        }
    }
}
