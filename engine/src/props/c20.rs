//! C20 — HTTP replies line up, entry by entry, with the commands that caused them.
//! Every body of 1..N commands over the property's letter set is POSTed to the real HTTP server;
//! the reply is compared entry by entry with a reference model of the single-node semantics.
use crate::http::HttpServer;
use crate::report::{Run, Violation};
use crate::world::*;
use nundb::bo::*;
use serde_json::json;
use std::collections::BTreeMap;
use std::sync::Arc;

const LETTERS: &[&str] = &[
    "auth u p",
    "auth u x",
    "use-db t tok",
    "use-db t bad",
    "use-db t bob bt",
    "get k",
    "get-safe k",
    "set k v1",
    "set k 7",
    "set-safe k 5 s5",
    "set-safe k 0 s0",
    "remove k",
    "increment n",
    "increment k",
    "keys",
    "create-db d dtok",
    "get $$token",
    "watch k",
];

struct Instance {
    node: Node,
    http: HttpServer,
    ws: crate::ws::WsServer,
}

fn reset(node: &Node) {
    // harness-side reset of the server's state between bodies (establishes the precondition only)
    let mut m = node.dbs.map.write().unwrap();
    m.retain(|k, _| k == "$admin" || k == "t");
    if let Some(admin) = m.get("$admin") {
        admin.map.write().unwrap().retain(|k, _| k == "$$token" || k == "t");
    }
    let t = m.get("t").unwrap();
    {
        let mut tm = t.map.write().unwrap();
        tm.clear();
        let mk = |v: &str| Value { value: v.to_string(), version: 0, opp_id: 1, state: ValueStatus::New, value_disk_addr: 0, key_disk_addr: 0 };
        tm.insert("$$token".into(), mk("tok"));
        tm.insert("$$user_bob".into(), mk("bt"));
        tm.insert("$$permission_$bob".into(), mk("r k"));
    }
    t.watchers.map.write().unwrap().clear();
    *t.connections.write().unwrap().get_mut() = 0;
    node.dbs.id_name_db_map.write().unwrap().retain(|_, v| v == "$admin" || v == "t");
}

#[derive(Clone, Default)]
struct Model {
    admin: bool,
    sel: bool,
    user: Option<String>,
    kv: BTreeMap<String, (String, i32)>,
    dbs: Vec<String>,
    conn: i32,
    /// keys this request's own session watches: a mutation's entry is then its own notification
    watched: Vec<String>,
}

impl Model {
    fn new() -> Model {
        let mut kv = BTreeMap::new();
        kv.insert("$$token".to_string(), ("tok".to_string(), 0));
        kv.insert("$$user_bob".to_string(), ("bt".to_string(), 0));
        kv.insert("$$permission_$bob".to_string(), ("r k".to_string(), 0));
        Model { kv, ..Default::default() }
    }
    fn put(&mut self, k: &str, v: String, ver: i32) {
        self.kv.insert(k.to_string(), (v, ver));
    }
    fn set_conn(&mut self) {
        let ver = self.kv.get("$connections").map(|x| x.1 + 1).unwrap_or(0);
        self.put("$connections", self.conn.to_string(), ver);
    }
    /// the entry this command alone must produce
    fn step(&mut self, cmd: &str) -> String {
        const SECURE: &str = "To read security keys you must auth as an admin!";
        const NOSEL: &str = "error no-db-selected\n";
        const DENIED: &str = "permission denied\n";
        let p: Vec<&str> = cmd.split(' ').collect();
        let allowed = |m: &Model, key: &str, kind: char| -> Result<(), String> {
            if key.starts_with("$$") && !m.admin {
                return Err(SECURE.to_string());
            }
            if !m.sel {
                return Err(NOSEL.to_string());
            }
            if key.starts_with("$$") {
                return Ok(());
            }
            match &m.user {
                Some(_) => {
                    // bob: "r k" -> read on keys containing "k"
                    if kind == 'r' && key.contains('k') {
                        Ok(())
                    } else {
                        Err(DENIED.to_string())
                    }
                }
                None => Ok(()),
            }
        };
        match p[0] {
            "auth" => {
                if p[1] == "u" && p[2] == "p" {
                    self.admin = true;
                }
                if self.admin { "valid auth\n".into() } else { "invalid auth\n".into() }
            }
            "use-db" => {
                let ok = if p.len() == 3 { p[2] == "tok" } else { p[2] == "bob" && p[3] == "bt" };
                if !ok {
                    return "Invalid token".into();
                }
                if self.sel {
                    self.conn -= 1;
                    self.set_conn();
                }
                self.sel = true;
                if p.len() == 4 {
                    self.user = Some("bob".into());
                }
                self.conn += 1;
                self.set_conn();
                "empty".into()
            }
            "get" | "get-safe" => {
                if let Err(e) = allowed(self, p[1], 'r') {
                    return e;
                }
                let (v, ver) = self.kv.get(p[1]).cloned().unwrap_or(("<Empty>".into(), 1));
                if p[0] == "get" { format!("value {}\n", v) } else { format!("value-version {} {}\n", ver, v) }
            }
            "watch" => {
                if let Err(e) = allowed(self, p[1], 'r') {
                    return e;
                }
                self.watched.push(p[1].to_string());
                "empty".into()
            }
            "set" => {
                if let Err(e) = allowed(self, p[1], 'w') {
                    return e;
                }
                let ver = self.kv.get(p[1]).map(|x| x.1 + 1).unwrap_or(0);
                self.put(p[1], p[2].to_string(), ver);
                if self.watched.iter().any(|k| k == p[1]) { format!("changed {} {}\n", p[1], p[2]) } else { "empty".into() }
            }
            "set-safe" => {
                if let Err(e) = allowed(self, p[1], 'w') {
                    return e;
                }
                let v: i32 = p[2].parse().unwrap();
                match self.kv.get(p[1]) {
                    Some((_, cur)) if v < *cur => "Invalid version!".into(),
                    _ => {
                        self.put(p[1], p[3].to_string(), v + 1);
                        if self.watched.iter().any(|k| k == p[1]) { format!("changed {} {}\n", p[1], p[3]) } else { "empty".into() }
                    }
                }
            }
            "remove" => {
                if let Err(e) = allowed(self, p[1], 'x') {
                    return e;
                }
                self.kv.remove(p[1]);
                if self.watched.iter().any(|k| k == p[1]) { format!("removed {}\n", p[1]) } else { "empty".into() }
            }
            "increment" => {
                if let Err(e) = allowed(self, p[1], 'i') {
                    return e;
                }
                let cur = self.kv.get(p[1]).cloned();
                let base = cur.as_ref().map(|c| c.0.clone()).unwrap_or("0".into());
                match base.parse::<i32>() {
                    Ok(n) => {
                        let ver = cur.map(|c| c.1 + 1).unwrap_or(1);
                        self.put(p[1], (n + 1).to_string(), ver);
                        if self.watched.iter().any(|k| k == p[1]) { format!("changed {} {}\n", p[1], n + 1) } else { "empty".into() }
                    }
                    Err(_) => "Key is not numeric".into(),
                }
            }
            "keys" => {
                if !self.sel {
                    return NOSEL.into();
                }
                let ks: String = self.kv.keys().filter(|k| self.admin || !k.starts_with("$$")).fold(String::new(), |c, k| format!("{},{}", c, k));
                format!("keys {}\n", ks)
            }
            "create-db" => {
                if !self.admin {
                    return "Not auth".into();
                }
                if self.dbs.contains(&p[1].to_string()) {
                    return "database already exists".into();
                }
                self.dbs.push(p[1].to_string());
                "create-db success\n".into()
            }
            _ => "?".into(),
        }
    }
}

fn expected(cmds: &[&str]) -> (Vec<String>, Model) {
    let mut m = Model::new();
    let out = cmds.iter().map(|c| m.step(c)).collect();
    (out, m)
}

fn render(cmds: &[&str], variant: usize) -> String {
    match variant {
        0 => cmds.join(";"),
        1 => format!("{};", cmds.join(";")),
        2 => cmds.join(";;"),
        _ => format!(" {} ; ", cmds.join(" ; ")),
    }
}

fn run_bodies(inst: &Instance, bodies: &[Vec<usize>], variants: &[usize], out: &std::sync::Mutex<Vec<Violation>>, counters: &std::sync::Mutex<(u64, std::collections::BTreeSet<String>)>) {
    let mut n = 0u64;
    let mut kinds = std::collections::BTreeSet::new();
    for b in bodies {
        let cmds: Vec<&str> = b.iter().map(|i| LETTERS[*i]).collect();
        let (want, model) = expected(&cmds);
        for variant in variants {
            reset(&inst.node);
            let body = render(&cmds, *variant);
            n += 1;
            let reply = match inst.http.post(&body) {
                Ok(r) => r,
                Err(e) => {
                    out.lock().unwrap().push(Violation { clause: "http-request-failed".into(), shape: cmds.join(" ; "), detail: e, replay: json!({"engine":"c20","body":body}) });
                    continue;
                }
            };
            let want_reply = want.join(";");
            for w in want.iter() {
                kinds.insert(w.split(|c| c == ' ' || c == '\n').next().unwrap_or("").to_string());
            }
            if reply != want_reply {
                let got: Vec<&str> = reply.split(';').collect();
                let clause = if got.len() != want.len() { "entry-count-mismatch" } else { "entry-mismatch" };
                // canonical shape: the first position that differs, with its command
                let pos = (0..want.len().max(got.len())).find(|i| got.get(*i).map(|s| s.to_string()) != want.get(*i).cloned()).unwrap_or(0);
                out.lock().unwrap().push(Violation {
                    clause: clause.into(),
                    shape: format!("{} [variant {}] first wrong entry #{}", cmds.join(" ; "), variant, pos),
                    detail: format!("body {:?}: reply {:?}, expected {:?}", body, got, want),
                    replay: json!({"engine":"c20","body":body,"expected":want}),
                });
                continue;
            }
            // the request's session is gone: no subscription, connection count back
            let (watchers, conn, key) = with_db(&inst.node.dbs, "t", |db| (watcher_counts(db), db.connections_count(), dump_db(db).get("$connections").map(|k| k.value.clone()))).unwrap();
            if watchers.values().any(|n| *n > 0) {
                out.lock().unwrap().push(Violation { clause: "subscription-leaked".into(), shape: cmds.join(" ; "), detail: format!("after body {:?}: watchers {:?}", body, watchers), replay: json!({"engine":"c20","body":body}) });
            }
            let key_n = key.as_ref().and_then(|k| k.parse::<i64>().ok()).unwrap_or(0);
            if conn != 0 || key_n != 0 {
                out.lock().unwrap().push(Violation { clause: "connection-count-leaked".into(), shape: cmds.join(" ; "), detail: format!("after body {:?}: internal counter {} $connections {:?}", body, conn, key), replay: json!({"engine":"c20","body":body}) });
            }
            // and the data the body wrote is what the model says
            let live: BTreeMap<String, String> = with_db(&inst.node.dbs, "t", |db| live_view(&dump_db(db)).into_iter().filter(|(k, _)| k != "$connections").map(|(k, v)| (k, v.0)).collect()).unwrap();
            let mlive: BTreeMap<String, String> = model.kv.iter().filter(|(k, _)| *k != "$connections").map(|(k, v)| (k.clone(), v.0.clone())).collect();
            if live != mlive {
                out.lock().unwrap().push(Violation { clause: "commands-not-executed-once-in-order".into(), shape: cmds.join(" ; "), detail: format!("after body {:?}: database {:?}, expected {:?}", body, live, mlive), replay: json!({"engine":"c20","body":body}) });
            }
        }
    }
    let mut c = counters.lock().unwrap();
    c.0 += n;
    c.1.extend(kinds);
}

/// Bodies that subscribe the request's session by other means than a top-level `watch` (a watch
/// inside the `rp <id>` envelope, `arbiter`), alone and mixed with plain watches and writes; only
/// the clean-up clause is judged: when the request has ended no watcher entry and no counted
/// connection of it is left.
const INDIRECT_SUBSCRIPTIONS: &[&str] = &[
    "use-db t tok;rp 7 watch k",
    "use-db t tok;rp 7 watch k;set k 1",
    "use-db t tok;arbiter",
    "auth u p;use-db t tok;arbiter;set k 2",
    "use-db t tok;rp 7 watch k;watch j",
    "use-db t tok;watch k;rp 8 unwatch k",
    "use-db t tok;rp 9 use-db t tok;rp 7 watch k",
    "use-db t tok;rp 7 rp 8 watch k",
    "use-db t tok; watch k ;set k 3",
    "use-db t bob bt;rp 7 watch k",
];

fn run_cleanup_bodies(inst: &Instance, out: &std::sync::Mutex<Vec<Violation>>, counters: &std::sync::Mutex<(u64, std::collections::BTreeSet<String>)>) {
    let mut n = 0;
    for body in INDIRECT_SUBSCRIPTIONS {
        reset(&inst.node);
        n += 1;
        if let Err(e) = inst.http.post(body) {
            out.lock().unwrap().push(Violation { clause: "http-request-failed".into(), shape: body.to_string(), detail: e, replay: json!({"engine":"c20","body":body}) });
            continue;
        }
        let (watchers, conn, key) = with_db(&inst.node.dbs, "t", |db| (watcher_counts(db), db.connections_count(), dump_db(db).get("$connections").map(|k| k.value.clone()))).unwrap();
        if watchers.values().any(|n| *n > 0) {
            out.lock().unwrap().push(Violation { clause: "subscription-leaked".into(), shape: body.replace(';', " ; "), detail: format!("after body {:?}: watchers {:?}", body, watchers), replay: json!({"engine":"c20","body":body}) });
        }
        let key_n = key.as_ref().and_then(|k| k.parse::<i64>().ok()).unwrap_or(0);
        if conn != 0 || key_n != 0 {
            out.lock().unwrap().push(Violation { clause: "connection-count-leaked".into(), shape: body.replace(';', " ; "), detail: format!("after body {:?}: internal counter {} $connections {:?}", body, conn, key), replay: json!({"engine":"c20","body":body}) });
        }
    }
    counters.lock().unwrap().0 += n;
}

/// One WebSocket frame holding several commands.  Differential oracle: the frames the server sends
/// back, the database afterwards and the session's clean-up must be exactly what the same commands
/// give when each travels in a frame of its own (and the data must be what the model says).
fn run_ws_frames(inst: &Instance, bodies: &[Vec<usize>], out: &std::sync::Mutex<Vec<Violation>>, counters: &std::sync::Mutex<(u64, std::collections::BTreeSet<String>)>) {
    let mut n = 0u64;
    let state = |inst: &Instance| -> String {
        with_db(&inst.node.dbs, "t", |db| {
            let d = dump_db(db);
            let mut v: Vec<String> = d.iter().map(|(k, x)| format!("{}={:?}@{}:{:?}", k, x.value, x.version, x.state)).collect();
            v.sort();
            v.join(",")
        })
        .unwrap_or_default()
            + &format!(" dbs={:?}", {
                let mut n: Vec<String> = inst.node.dbs.map.read().unwrap().keys().cloned().collect();
                n.sort();
                n
            })
    };
    for b in bodies {
        let cmds: Vec<&str> = b.iter().map(|i| LETTERS[*i]).collect();
        let (_, model) = expected(&cmds);
        let mut results: Vec<(Vec<String>, String, String)> = vec![];
        let mut failed = false;
        // mode 0: one frame per command; 1: one frame `a;b`; for bodies of at most two commands also
        // 2: trailing ';', 3: `a;;b` (a blank statement in the middle). (Blanks around the separators are not
        // tried on this front end: it does not trim, a statement that starts with a blank is an empty command
        // there, and the property does not say otherwise.)
        let modes: Vec<usize> = if cmds.len() <= 2 { vec![0, 1, 2, 3] } else { vec![0, 1] };
        for mode in modes.iter().cloned() {
            let one_frame = mode != 0;
            reset(&inst.node);
            n += 1;
            let mut c = match inst.ws.connect() {
                Ok(c) => c,
                Err(e) => {
                    out.lock().unwrap().push(Violation { clause: "websocket-request-failed".into(), shape: cmds.join(" ; "), detail: e, replay: json!({"engine":"c20","transport":"websocket","commands":cmds}) });
                    failed = true;
                    break;
                }
            };
            let to_send: Vec<String> = if one_frame { vec![render(&cmds, mode - 1)] } else { cmds.iter().map(|x| x.to_string()).collect() };
            let frames = match c.frames_until_marker(&to_send) {
                Some(f) => f,
                None => {
                    out.lock().unwrap().push(Violation { clause: "websocket-request-failed".into(), shape: cmds.join(" ; "), detail: format!("the connection ended while {:?} was being answered", to_send), replay: json!({"engine":"c20","transport":"websocket","commands":cmds}) });
                    failed = true;
                    break;
                }
            };
            let open_state = state(inst);
            let closed = c.close_and_wait();
            // the server's on_close runs around the closing handshake, not strictly before the socket is dropped:
            // a state that is not clean yet is read again for up to 3 s
            let t0 = std::time::Instant::now();
            let after = loop {
                let (watchers, conn, key) = with_db(&inst.node.dbs, "t", |db| (watcher_counts(db), db.connections_count(), dump_db(db).get("$connections").map(|k| k.value.clone()))).unwrap();
                let after = format!("closed={} watchers_left={} counter={} $connections={:?}", closed, watchers.values().filter(|n| **n > 0).count(), conn, key.as_ref().and_then(|k| k.parse::<i64>().ok()).unwrap_or(0));
                if after.starts_with("closed=true watchers_left=0 counter=0 $connections=0") || t0.elapsed() > std::time::Duration::from_secs(3) {
                    break after;
                }
                std::thread::sleep(std::time::Duration::from_millis(5));
            };
            results.push((frames, open_state, after));
        }
        if failed {
            continue;
        }
        // frames with blank statements: the blank statement's own error frame aside, the same replies, the same
        // database and the same clean-up as separate frames
        for (mi, r) in results.iter().enumerate().skip(2) {
            let sep = &results[0];
            let frames: Vec<String> = r.0.iter().filter(|f| !f.contains("empty command")).cloned().collect();
            let framing = render(&cmds, modes[mi] - 1);
            if frames != sep.0 {
                out.lock().unwrap().push(Violation { clause: if frames.len() != sep.0.len() { "websocket-entry-count-mismatch" } else { "websocket-entry-mismatch" }.into(), shape: format!("framing #{}: {}", modes[mi], cmds.join(" ; ")), detail: format!("one frame {:?} answered with {:?}; the same commands in separate frames with {:?}", framing, r.0, sep.0), replay: json!({"engine":"c20","transport":"websocket","commands":cmds,"frame":framing}) });
            }
            if r.1 != sep.1 {
                out.lock().unwrap().push(Violation { clause: "commands-not-executed-once-in-order".into(), shape: format!("websocket framing #{}: {}", modes[mi], cmds.join(" ; ")), detail: format!("database after the frame {:?}: {} ; after separate frames: {}", framing, r.1, sep.1), replay: json!({"engine":"c20","transport":"websocket","commands":cmds,"frame":framing}) });
            }
            if !r.2.starts_with("closed=true watchers_left=0 counter=0 $connections=0") {
                out.lock().unwrap().push(Violation { clause: if r.2.contains("watchers_left=0") { "connection-count-leaked" } else { "subscription-leaked" }.into(), shape: format!("websocket framing #{}: {}", modes[mi], cmds.join(" ; ")), detail: format!("after the WebSocket connection (frame {:?}) closed: {}", framing, r.2), replay: json!({"engine":"c20","transport":"websocket","commands":cmds,"frame":framing}) });
            }
        }
        let (sep, one) = (&results[0], &results[1]);
        if sep.0 != one.0 {
            let pos = (0..sep.0.len().max(one.0.len())).find(|i| sep.0.get(*i) != one.0.get(*i)).unwrap_or(0);
            out.lock().unwrap().push(Violation {
                clause: if sep.0.len() != one.0.len() { "websocket-entry-count-mismatch" } else { "websocket-entry-mismatch" }.into(),
                shape: format!("{} first wrong frame #{}", cmds.join(" ; "), pos),
                detail: format!("one frame {:?} answered with {:?}; the same commands in separate frames with {:?}", cmds.join(";"), one.0, sep.0),
                replay: json!({"engine":"c20","transport":"websocket","commands":cmds}),
            });
        }
        if sep.1 != one.1 {
            out.lock().unwrap().push(Violation { clause: "commands-not-executed-once-in-order".into(), shape: format!("websocket: {}", cmds.join(" ; ")), detail: format!("database after one frame: {} ; after separate frames: {}", one.1, sep.1), replay: json!({"engine":"c20","transport":"websocket","commands":cmds}) });
        }
        // and against the model (values of live keys)
        let live: BTreeMap<String, String> = one.1.split(" dbs=").next().unwrap_or("").split(',').filter(|e| !e.is_empty() && !e.ends_with(":Deleted") && !e.starts_with("$connections=")).filter_map(|e| e.split_once('=').map(|(k, r)| (k.to_string(), r.rsplit_once('@').map(|x| x.0).unwrap_or(r).to_string()))).collect();
        let mlive: BTreeMap<String, String> = model.kv.iter().filter(|(k, _)| *k != "$connections").map(|(k, v)| (k.clone(), format!("{:?}", v.0))).collect();
        if live != mlive {
            out.lock().unwrap().push(Violation { clause: "commands-not-executed-once-in-order".into(), shape: format!("websocket: {}", cmds.join(" ; ")), detail: format!("database after the frame {:?}: {:?}, expected {:?}", cmds.join(";"), live, mlive), replay: json!({"engine":"c20","transport":"websocket","commands":cmds}) });
        }
        for (which, r) in [("separate frames", sep), ("one frame", one)] {
            if !r.2.starts_with("closed=true watchers_left=0 counter=0 $connections=0") {
                out.lock().unwrap().push(Violation { clause: if r.2.contains("watchers_left=0") { "connection-count-leaked" } else { "subscription-leaked" }.into(), shape: format!("websocket: {}", cmds.join(" ; ")), detail: format!("after the WebSocket connection ({}) closed: {}", which, r.2), replay: json!({"engine":"c20","transport":"websocket","commands":cmds}) });
            }
        }
    }
    counters.lock().unwrap().0 += n;
}

pub fn run(run: &mut Run) {
    let quick = run.quick();
    let depth = if quick { 4 } else { 5 };
    let nl = LETTERS.len();
    let mut bodies: Vec<Vec<usize>> = vec![];
    fn rec(cur: &mut Vec<usize>, nl: usize, depth: usize, out: &mut Vec<Vec<usize>>) {
        if !cur.is_empty() {
            out.push(cur.clone());
        }
        if cur.len() == depth {
            return;
        }
        for i in 0..nl {
            cur.push(i);
            rec(cur, nl, depth, out);
            cur.pop();
        }
    }
    rec(&mut vec![], nl, depth, &mut bodies);
    // beyond the depth bound, from a session that watches one key twice (a write to it then
    // queues four messages): every body of two more commands
    {
        let idx = |l: &str| LETTERS.iter().position(|x| *x == l).unwrap();
        let prefix = vec![idx("use-db t tok"), idx("watch k"), idx("watch k")];
        for a in 0..nl {
            for b in 0..nl {
                let mut v = prefix.clone();
                v.push(a);
                v.push(b);
                bodies.push(v);
            }
        }
    }
    let ninst = 8;
    let instances: Vec<Instance> = (0..ninst)
        .map(|_| {
            let node = Node::new_single("c20");
            let mut admin = Session::new();
            admin.exec(&node, &format!("auth {} {}", USER, PWD));
            admin.exec(&node, "create-db t tok none");
            let http = HttpServer::start(node.dbs.clone());
            let ws = crate::ws::WsServer::start(node.dbs.clone());
            Instance { node, http, ws }
        })
        .collect();
    let out = std::sync::Mutex::new(vec![]);
    let counters = std::sync::Mutex::new((0u64, std::collections::BTreeSet::new()));
    let chunk = (bodies.len() + ninst - 1) / ninst;
    // trailing ';' and blank statements only on bodies up to 2 commands (framing is per body, not per command)
    std::thread::scope(|s| {
        for (i, inst) in instances.iter().enumerate() {
            let part = &bodies[(i * chunk).min(bodies.len())..((i + 1) * chunk).min(bodies.len())];
            let out = &out;
            let counters = &counters;
            s.spawn(move || {
                let short: Vec<Vec<usize>> = part.iter().filter(|b| b.len() <= 2).cloned().collect();
                run_bodies(inst, part, &[0], out, counters);
                run_bodies(inst, &short, &[1, 2, 3], out, counters);
                if i == 0 {
                    run_cleanup_bodies(inst, out, counters);
                }
                let ws_depth = depth - 1;
                let ws_part: Vec<Vec<usize>> = part.iter().filter(|b| b.len() <= ws_depth).cloned().collect();
                run_ws_frames(inst, &ws_part, out, counters);
            });
        }
    });
    for v in out.into_inner().unwrap() {
        run.violate(v);
    }
    let (n, kinds) = counters.into_inner().unwrap();
    run.cov("http_and_websocket_requests", json!(n));
    run.cov("max_commands_per_websocket_frame", json!(depth - 1));
    run.cov("bodies", json!(bodies.len()));
    run.cov("max_commands_per_body", json!(depth));
    run.cov("letters", json!(LETTERS));
    run.cov("bodies_with_indirect_subscriptions", json!(INDIRECT_SUBSCRIPTIONS));
    run.cov("distinct_entry_kinds", json!(kinds));
    run.cov_add("states", bodies.len() as u64);
    run.cov_add("transitions", n);
    run.cov_add("traces_validated_against_impl", n);
    run.cov("exhaustive", json!(true));
    run.sample(json!({"body": render(&[LETTERS[5], LETTERS[2], LETTERS[5]], 0), "expected_reply": expected(&[LETTERS[5], LETTERS[2], LETTERS[5]]).0}));
    for i in instances {
        i.node.remove_dir();
    }
    run.assume("the server's state is reset by the harness between bodies (keys, watchers, counters, extra databases), so every body starts from the same database");
    run.assume("values contain no ';' or newline");
    run.assume("WebSocket frames: the oracle is differential - one frame with n commands against the same n commands in n frames on a fresh connection (frames received, database with versions, clean-up after close) - plus the model for the stored values");
    let _ = Arc::new(0);
}
