//! C14 — every operation causes a bounded message burst, then silence. NET engine with message
//! counters on the simulated links.
use super::cluster::*;
use crate::net::*;
use crate::report::Run;
use serde_json::json;
use std::time::Duration;

pub fn commands() -> Vec<&'static str> {
    vec![
        "get k", "get-safe k", "set k v1", "set-safe k 9 s1", "set-safe k 0 s0", "remove k", "increment c", "watch k", "unwatch k", "unwatch-all", "keys", "arbiter",
        "resolve 5 t k 1 r1", "create-db d2 tok2", "create-user bob bt", "set-permissions bob rw k*", "snapshot false t", "snapshot false t|$admin", "use-db t tok", "cluster-state", "metrics-state",
        "debug pending-ops", "list-commands",
    ]
}

fn is_request(line: &str) -> bool {
    let l = line.trim();
    !(l == "ok" || l.starts_with("ok ") || l.starts_with("ack ") || l.starts_with("error "))
}

/// traffic oracle, evaluated in every state (counts only grow) and at quiescence
fn judge(w: &NetWorld, at_quiescence: bool) -> Vec<(String, String)> {
    let n = w.nodes.len();
    let prim = (0..n).find(|i| w.role(*i) == nundb::bo::ClusterRole::Primary);
    let p = match prim {
        Some(p) => p,
        None => return vec![("no-primary".into(), "no primary".into())],
    };
    judge_lines(&w.traffic, n, p, at_quiescence)
}

/// the same oracle on any per-link message log (the model's, or the real cluster's seen by the proxies)
pub fn judge_lines(traffic: &[(usize, usize, String)], n: usize, p: usize, at_quiescence: bool) -> Vec<(String, String)> {
    let mut out = vec![];
    let mut forwards = 0;
    let mut copies = 0;
    let mut acks = 0;
    for (from, to, line) in traffic.iter() {
        let reply = line.starts_with(REPLY_MARK);
        let l = line.trim_start_matches(REPLY_MARK).trim();
        if l.starts_with("ack ") {
            acks += 1;
            continue;
        }
        // anything else written back on the connection a command came in on is that command's
        // result line (`ok`, `error ..`, `create-db success`, ...), not a message of its own
        if reply || !is_request(l) {
            continue;
        }
        if *from == p {
            if l.starts_with("rp ") {
                copies += 1;
            } else {
                out.push(("unexpected-message".to_string(), format!("primary sent a bare request to n{}; `{}`", to + 1, l.chars().take(80).collect::<String>())));
            }
        } else if *to == p {
            forwards += 1;
        } else {
            out.push(("secondary-fanned-out".to_string(), format!("a secondary sent a request to a node that is not the primary; n{} -> n{} `{}`", from + 1, to + 1, l.chars().take(80).collect::<String>())));
        }
    }
    let sec = n - 1;
    if forwards > 1 {
        out.push(("too-many-forwards".to_string(), format!("more than one forward to the primary; {} forwards", forwards)));
    }
    if copies > sec {
        out.push(("too-many-copies".to_string(), format!("more than one copy per secondary; {} copies for {} secondaries", copies, sec)));
    }
    if acks > copies {
        out.push(("too-many-acks".to_string(), format!("more acknowledgements than copies; {} acks for {} copies", acks, copies)));
    }
    if at_quiescence && acks < copies {
        out.push(("copy-never-acknowledged".to_string(), format!("silence reached with unacknowledged copies; {} acks for {} copies", acks, copies)));
    }
    out
}

pub fn run(run: &mut Run) {
    crate::net::init_sleep_sites();
    let quick = run.quick();
    let deadline = std::time::Instant::now() + Duration::from_secs(if quick { 90 } else { 1500 });
    let mut plan: Vec<(usize, &'static str, Script)> = vec![];
    for nodes in if quick { vec![2] } else { vec![2, 3] } {
        for strategy in ["none", "arbiter", "newer"] {
            let mut cmds = commands();
            if strategy == "newer" {
                cmds = vec!["set k v1", "set-safe k 1 s1", "set-safe k 0 s0", "increment c", "remove k"];
            }
            for c in cmds {
                if strategy == "arbiter" && !(c.starts_with("set") || c.starts_with("resolve") || c == "arbiter" || c.starts_with("remove")) {
                    continue;
                }
                for node in 0..nodes {
                    plan.push((nodes, strategy, Script { ops: vec![(node, c.to_string())] }));
                }
            }
        }
    }
    if quick {
        // three nodes are needed to see a secondary talking to another secondary: the writes and
        // administrative writes issued on a secondary (thorough runs every command on every node)
        for strategy in ["none", "newer"] {
            for c in ["set k v1", "remove k", "increment c", "create-user bob bt", "set-permissions bob rw k*", "set-safe k 0 s0"] {
                if strategy == "newer" && !c.starts_with("set") {
                    continue;
                }
                plan.push((3, strategy, Script { ops: vec![(2, c.to_string())] }));
            }
        }
    }
    // a cluster whose primary has moved once (the node that joined last claims the earliest start
    // time, e.g. because its clock is behind) and whose former primary is still a member: writes
    // issued on a secondary must still be forwarded once, to the one primary
    let moved_pids: Vec<u128> = vec![200, 300, 100];
    let mut moved: Vec<Script> = vec![];
    for node in [1usize, 0] {
        for c in if quick { vec!["set k v1", "remove k"] } else { vec!["set k v1", "remove k", "increment c", "create-user bob bt", "set-safe k 0 s0"] } {
            if quick && node == 0 && c != "set k v1" {
                continue;
            }
            moved.push(Script { ops: vec![(node, c.to_string())] });
        }
    }
    // diagnostic: NUNMC_C14_ONLY=failover runs the fail-over family alone (never set by MANIFEST commands)
    let only_failover = std::env::var("NUNMC_C14_ONLY").map(|v| v == "failover").unwrap_or(false);
    if only_failover {
        plan.clear();
        moved.clear();
    }
    let mut total = NetStats::default();
    let mut capped = 0;
    let mut skipped = 0;
    for sc in moved.iter() {
        let setup = ClusterSetup { nodes: 3, strategy: "none", init: vec!["set k v0".into(), "set k v0b".into(), "set c 5".into()] };
        let cfg = NetCfg { max_states: if quick { 40 } else { 30000 }, max_path: 120, budget: Duration::from_secs(if quick { 5 } else { 40 }), workers: if quick { 1 } else { crate::util::workers() }, by_deviations: quick };
        let mk = || build_pids(&setup, sc, &moved_pids);
        let on_state = |w: &NetWorld, _p: &[T]| judge(w, false);
        let on_q = |w: &NetWorld, _p: &[T]| judge(w, true);
        match explore_net(&mk, &on_state, &on_q, &cfg) {
            Ok((st, findings)) => {
                total.states += st.states;
                total.transitions += st.transitions;
                total.replays += st.replays;
                total.quiescent_states += st.quiescent_states;
                if st.cap.is_some() {
                    capped += 1;
                }
                let name = format!("[3 nodes, none db, primary moved from n1 to n3] {}", sc.name());
                let cmd = sc.ops[0].1.split(' ').next().unwrap_or("").to_string();
                report_findings(run, "C14", &name, findings, &|f| format!("{} on a secondary after the primary has moved (none db): {}", cmd, f.detail.split(';').next().unwrap_or("")));
            }
            Err(e) => {
                eprintln!("machinery: NET exploration of {} (moved primary) failed: {}", sc.name(), e);
                std::process::exit(2);
            }
        }
    }
    run.cov("scripts_on_a_cluster_whose_primary_moved", json!(moved.len()));
    // a cluster that has been through a fail-over (n1 died, n2 won the election and announced itself over the
    // links it had opened as a secondary): one operation must still cause one bounded burst
    let mut failover: Vec<(&'static str, Script)> = vec![];
    for (strategy, node, c) in [("arbiter", 1usize, "resolve 5 t k 1 r1"), ("arbiter", 2, "resolve 5 t k 1 r1"), ("none", 2, "set k v1"), ("none", 1, "create-db d2 tok2")] {
        if quick && c.starts_with("create-db") {
            continue;
        }
        failover.push((strategy, Script { ops: vec![(node, c.to_string())] }));
    }
    for (strategy, sc) in failover.iter() {
        let setup = ClusterSetup { nodes: 3, strategy, init: vec!["set k v0".into(), "set k v0b".into(), "set c 5".into()] };
        let cfg = NetCfg { max_states: if quick { 60 } else { 30000 }, max_path: 120, budget: Duration::from_secs(if quick { 5 } else { 40 }), workers: if quick { 1 } else { crate::util::workers() }, by_deviations: quick };
        let mk = || super::cluster::build_after_failover(&setup, sc);
        let judge_alive = |w: &NetWorld, at_q: bool| -> Vec<(String, String)> {
            let alive: Vec<usize> = (0..w.nodes.len()).filter(|i| w.nodes[*i].alive).collect();
            match alive.iter().cloned().find(|i| w.role(*i) == nundb::bo::ClusterRole::Primary) {
                Some(p) => judge_lines(&w.traffic, alive.len(), p, at_q),
                None => vec![("no-primary".into(), "no primary among the survivors".into())],
            }
        };
        // One schedule per script: the fair one (the transition that has been enabled longest goes first), judged in
        // every state it passes and at the end. The worlds of this family are NOT explored by prefix replay: which
        // survivor's messages are queued first after the fail-over follows the iteration order of a hash map
        // (different in every world instance), so a replayed prefix can meet another set of enabled transitions
        // (seen as "replay divergence" in the first thorough run of this family).
        let _ = &cfg;
        let mut findings: Vec<crate::net::NetFinding> = vec![];
        match mk() {
            Ok(mut w) => {
                let mut trace: Vec<T> = vec![];
                let quiet = match w.run_fair_traced(4000, &mut trace) {
                    Ok(Ok(_)) => true,
                    Ok(Err(_)) => false,
                    Err(e) => {
                        eprintln!("machinery: fair run of {} (after a fail-over) failed: {}", sc.name(), e);
                        std::process::exit(2);
                    }
                };
                total.transitions += trace.len() as u64;
                total.states += trace.len() as u64 + 1;
                total.replays += 1;
                // message counts only grow: judging the traffic at the end covers every state passed
                for (c, d) in judge_alive(&w, quiet) {
                    if !findings.iter().any(|f| f.clause == c) {
                        findings.push(crate::net::NetFinding { clause: c, detail: d, path: trace.iter().take(80).cloned().collect() });
                    }
                }
                if quiet {
                    total.quiescent_states += 1;
                } else {
                    findings.push(crate::net::NetFinding { clause: "no-quiescence-under-fair-schedule".into(), detail: "the fair schedule (oldest enabled transition first) ran 4000 steps from the start state without the cluster going quiet".into(), path: trace.iter().take(60).cloned().collect() });
                }
                w.shutdown();
                let name = format!("[3 nodes, {} db, after a fail-over (n1 died, n2 elected)] {}", strategy, sc.name());
                let cmd = sc.ops[0].1.split(' ').next().unwrap_or("").to_string();
                let origin = if sc.ops[0].0 == 1 { "primary" } else { "secondary" };
                report_findings(run, "C14", &name, findings, &|f| format!("{} on the {} ({} db) after a fail-over: {}", cmd, origin, strategy, f.detail.split(';').next().unwrap_or("")));
            }
            Err(e) => {
                eprintln!("machinery: cluster for {} (after a fail-over) could not be built: {}", sc.name(), e);
                std::process::exit(2);
            }
        }
    }
    run.cov("scripts_on_a_cluster_after_a_failover", json!(failover.len()));
    for (nn, strategy, sc) in plan.iter() {
        if std::time::Instant::now() > deadline {
            skipped += 1;
            continue;
        }
        let setup = ClusterSetup { nodes: *nn, strategy, init: vec!["set k v0".into(), "set k v0b".into(), "set c 5".into()] };
        let cfg = NetCfg { max_states: if quick { 3000 } else { 30000 }, max_path: 120, budget: Duration::from_secs(if quick { 5 } else { 40 }), workers: crate::util::workers(), by_deviations: false };
        let mk = || build(&setup, sc);
        let on_state = |w: &NetWorld, _p: &[T]| judge(w, false);
        let on_q = |w: &NetWorld, _p: &[T]| judge(w, true);
        match explore_net(&mk, &on_state, &on_q, &cfg) {
            Ok((st, findings)) => {
                total.states += st.states;
                total.transitions += st.transitions;
                total.replays += st.replays;
                total.quiescent_states += st.quiescent_states;
                total.max_path = total.max_path.max(st.max_path);
                if st.cap.is_some() {
                    capped += 1;
                }
                let name = format!("[{} nodes, {} db] {}", nn, strategy, sc.name());
                let cmd = sc.ops[0].1.split(' ').next().unwrap_or("").to_string();
                let origin = if sc.ops[0].0 == 0 { "primary" } else { "secondary" };
                report_findings(run, "C14", &name, findings, &|f| format!("{} on the {} ({} db): {}", cmd, origin, strategy, f.detail.split(';').next().unwrap_or("")));
            }
            Err(e) => {
                eprintln!("machinery: NET exploration of {} failed: {}", sc.name(), e);
                std::process::exit(2);
            }
        }
    }
    if !only_failover {
        real_transport_stage(run, if quick { vec![2] } else { vec![2, 3] });
    }
    run.cov("scripts", json!(plan.len()));
    run.cov("commands", json!(commands()));
    run.cov_add("states", total.states);
    run.cov_add("transitions", total.transitions);
    run.cov_add("traces_validated_against_impl", total.replays);
    run.cov("quiescent_states_checked", json!(total.quiescent_states));
    run.cov("max_path_length", json!(total.max_path));
    run.cov("scripts_capped", json!(capped));
    run.cov("scripts_skipped_by_deadline", json!(skipped));
    run.cov("exhaustive", json!(capped == 0 && skipped == 0));
    if plan.len() > 2 {
        run.sample(json!({"script": plan[2].2.name(), "step_budget": 120}));
    }
    run.assume("ok / error lines that answer every command on a connection are transport replies, not counted as messages");
    run.assume("cluster-internal commands (join, leave, election, set-primary, replicate*, ack, rp) and debug force-election are not client operations here (elections: C07)");
}

/// The link model against the real transport (wire.rs), and the property's own oracle on the
/// real cluster's traffic: per operation at most one forward, one copy per secondary, one
/// acknowledgement per copy, then silence.
fn real_transport_stage(run: &mut Run, sizes: Vec<usize>) {
    let mut ev = vec![];
    for nodes in sizes {
        let out = match crate::wire::stage(nodes, "none") {
            Ok(o) => o,
            Err(e) => {
                eprintln!("machinery: real-transport stage: {}", e);
                std::process::exit(2);
            }
        };
        let sc = &out.scenario;
        let shape = |oi: usize, what: &str| {
            let op = &sc.ops[oi];
            format!("{} on the {} (none db): {}", op.cmd.split(' ').next().unwrap_or(""), if op.node == 0 { "primary" } else { "secondary" }, what)
        };
        for (oi, lines) in out.real.per_op.iter().enumerate() {
            let traffic: Vec<(usize, usize, String)> = lines.iter().map(|(f, t, reply, l)| (*f, *t, if *reply { format!("{}{}", REPLY_MARK, l) } else { l.clone() })).collect();
            let settled = !(out.real.unsettled.is_some() && oi + 1 == out.real.per_op.len());
            for (clause, detail) in judge_lines(&traffic, nodes, 0, settled) {
                run.violate(crate::report::Violation {
                    clause,
                    shape: shape(oi, detail.split(';').next().unwrap_or("")),
                    detail: format!("real cluster ({} node processes over TCP): n{} `{}` ; {} ; lines on the links {:?}", nodes, sc.ops[oi].node + 1, sc.ops[oi].cmd, detail, traffic),
                    replay: json!({"engine":"wire","nodes":nodes,"op_index":oi}),
                });
            }
        }
        if let Some(u) = &out.real.unsettled {
            let oi = out.real.per_op.len().saturating_sub(1);
            run.violate(crate::report::Violation {
                clause: "no-silence".into(),
                shape: shape(oi, "the real cluster does not settle"),
                detail: format!("real cluster ({} node processes over TCP): {}", nodes, u),
                replay: json!({"engine":"wire","nodes":nodes,"op_index":oi}),
            });
        } else if !out.real.after_silence.is_empty() {
            run.violate(crate::report::Violation {
                clause: "no-silence".into(),
                shape: "messages without a client operation".into(),
                detail: format!("real cluster ({} node processes over TCP): after the last operation had settled the links carried {:?}", nodes, out.real.after_silence),
                replay: json!({"engine":"wire","nodes":nodes}),
            });
        } else if !out.conf.differences.is_empty() {
            // the model of the connection is not what the code does: nothing the NET stages say can be trusted
            eprintln!("machinery: the link model of the NET engine does not conform to the real transport ({} nodes, {} real runs):", nodes, out.real_runs);
            for d in out.conf.differences.iter() {
                eprintln!("  {}", d);
            }
            std::process::exit(2);
        }
        run.cov_add("traces_validated_against_impl", out.conf.links_compared as u64);
        ev.push(crate::wire::evidence(&out));
    }
    run.cov("link_model_conformance", json!(ev));
    run.assume("real-transport stage: one schedule of the real system (the operating system's); operations are issued one at a time, each after every copy has been acknowledged and the links have been silent for 250 ms");
}
