//! Shared single-node key-value world: one primary node, database `t`, an admin session and a
//! database-token session, plus the plain-map reference model.
use crate::world::*;
use nundb::bo::*;
use std::collections::BTreeMap;

pub const DB: &str = "t";
pub const TOKEN: &str = "tok";

pub struct KvWorld {
    pub node: Node,
    pub admin: Session,
    pub tok: Session,
    /// reference model: live keys of database `t`
    pub model: BTreeMap<String, String>,
    /// per key: highest version reported since the key last came into existence (C02)
    pub max_version: BTreeMap<String, i32>,
    pub steps: usize,
}

impl KvWorld {
    pub fn new(tag: &str, strategy: &str) -> KvWorld {
        let node = Node::new_single(tag);
        let mut admin = Session::new();
        let mut tok = Session::new();
        let o = admin.exec(&node, &format!("auth {} {}", USER, PWD));
        assert_eq!(o.msgs, vec!["valid auth\n".to_string()], "setup auth");
        let o = admin.exec(&node, &format!("create-db {} {} {}", DB, TOKEN, strategy));
        assert_eq!(o.resp, "Ok", "setup create-db {:?}", o);
        let o = admin.exec(&node, &format!("use-db {} {}", DB, TOKEN));
        assert_eq!(o.resp, "Ok", "setup use-db");
        let o = tok.exec(&node, &format!("use-db {} {}", DB, TOKEN));
        assert_eq!(o.resp, "Ok", "setup use-db tok");
        let mut model = BTreeMap::new();
        model.insert("$$token".to_string(), TOKEN.to_string());
        model.insert("$connections".to_string(), "2".to_string());
        let mut w = KvWorld {
            node,
            admin,
            tok,
            model,
            max_version: BTreeMap::new(),
            steps: 0,
        };
        w.node.drain_queues();
        w
    }

    pub fn db_dump(&self) -> DbDump {
        with_db(&self.node.dbs, DB, |d| dump_db(d)).unwrap_or_default()
    }

    /// version get-safe would report (1 for an absent key)
    pub fn cur_version(&self, key: &str) -> i32 {
        self.db_dump().get(key).map(|k| k.version).unwrap_or(1)
    }

    pub fn impl_key(&self) -> String {
        let mut all = dump_all(&self.node.dbs);
        rank_opp_ids(&mut all);
        let snap = self
            .node
            .dbs
            .to_snapshot
            .read()
            .map(|g| g.clone())
            .unwrap_or_default();
        format!("{:?}|snapq={:?}", all, snap)
    }

    /// read-path invariant evaluated on every state: the real get / keys functions agree with
    /// the reference model for every key of interest
    pub fn read_paths_agree(&self, keys: &[&str]) -> Result<(), String> {
        let r = with_db(&self.node.dbs, DB, |db| {
            for k in keys {
                let got = match nundb::db_ops::get_key_value_new(&k.to_string(), db) {
                    Response::Value { value, .. } => value,
                    _ => "?".to_string(),
                };
                let want = self
                    .model
                    .get(*k)
                    .cloned()
                    .unwrap_or_else(|| "<Empty>".to_string());
                if got != want {
                    return Err(format!("get {} = {:?}, reference model says {:?}", k, got, want));
                }
            }
            let listed = db.list_keys(&"".to_string(), true);
            let want: Vec<String> = self.model.keys().cloned().collect();
            if listed != want {
                return Err(format!("keys = {:?}, reference model says {:?}", listed, want));
            }
            Ok(())
        });
        r.unwrap_or(Err("database t vanished".to_string()))
    }

    pub fn finish(self) {
        self.node.remove_dir();
    }
}

/// what `keys <pattern>` must list, per the property statement
pub fn model_keys(model: &BTreeMap<String, String>, pattern: &str, admin: bool) -> Vec<String> {
    let core = pattern.replace('*', "");
    model
        .keys()
        .filter(|k| admin || !k.starts_with("$$"))
        .filter(|k| {
            if pattern.ends_with('*') {
                k.starts_with(&core)
            } else if pattern.starts_with('*') {
                k.ends_with(&core)
            } else {
                k.contains(pattern)
            }
        })
        .cloned()
        .collect()
}

pub fn keys_reply(keys: &[String]) -> String {
    keys.iter().fold(String::new(), |c, k| format!("{},{}", c, k))
}

/// i32 parse with the semantics of the statement ("an integer value")
pub fn parse_int(s: &str) -> Option<i32> {
    i32::from_str_radix(s, 10).ok()
}
