pub mod kv;
pub mod c01;
pub mod c02;
pub mod c02_ilv;
pub mod c03;
pub mod c03_seq;
pub mod c04;
pub mod c05;
pub mod cluster;
pub mod conc;
pub mod c06;
pub mod c07;
pub mod c08;
pub mod c09;
pub mod c10;
pub mod c11;
pub mod c12;
pub mod c13;
pub mod c14;
pub mod c15;
pub mod c16;
pub mod c17;
pub mod c18;
pub mod c19;
pub mod c20;
pub mod lines;

use crate::report::{Run, Violation};
use crate::seq::{names, SeqConfig, SeqModel, SeqResult};
use serde_json::json;

/// Common conversion of a SEQ exploration result into evidence + violations.
pub fn seq_report<M: SeqModel>(run: &mut Run, m: &M, res: &SeqResult, cfg: &SeqConfig) {
    let letters = m.letters();
    run.cov_add("states", res.states);
    run.cov_add("transitions", res.transitions);
    run.cov_add("histories", res.histories);
    run.cov_add("traces_validated_against_impl", res.histories);
    run.cov("alphabet_size", json!(letters.len()));
    run.cov("depth_bound", json!(cfg.max_depth));
    run.cov("depth_completed", json!(res.depth_completed));
    run.cov("frontier_sizes", json!(res.frontier_sizes));
    if res.leaf_successors > 0 {
        run.cov_add("leaf_successor_states_checked", res.leaf_successors);
    }
    run.cov("exhaustive", json!(res.exhausted_bound && res.depth_completed >= cfg.max_depth));
    if let Some(c) = &res.cap_hit {
        run.cov("cap_hit", json!(c));
    }
    for s in res.samples.iter() {
        run.sample(json!(names(&letters, s)));
    }
    // determinism self-check: the sampled histories are re-executed twice on fresh worlds and
    // must reach the same canonical state (a difference would make any verdict unreliable)
    let mut checked = 0u64;
    for s in res.samples.iter().take(6) {
        let (_, k1) = crate::seq::run_history(m, s);
        let (_, k2) = crate::seq::run_history(m, s);
        if k1 != k2 {
            eprintln!("machinery: nondeterminism - history {:?} reached two different states", names(&letters, s));
            std::process::exit(2);
        }
        checked += 1;
    }
    run.cov_add("determinism_replays", checked);
    for v in res.violations.iter() {
        let hist = names(&letters, &v.history);
        run.violate(Violation {
            clause: v.clause.clone(),
            shape: v.shape.clone().unwrap_or_else(|| hist.join(" ; ")),
            detail: v.detail.clone(),
            replay: json!({"engine": "seq", "history": v.history, "letters": hist}),
        });
    }
}

/// Narrow, deep, no-merge pass: every history of exactly `depth` letters over the named
/// sub-alphabet, each executed from scratch. Guards against implementation state the canonical
/// key does not contain (merging, and "unchanged key => not expanded", would hide it).
pub fn deep_pass<M: SeqModel>(run: &mut Run, m: &M, wanted: &[&str], depth: usize, budget_s: u64) {
    let letters = m.letters();
    let sub: Vec<usize> = wanted.iter().map(|w| letters.iter().position(|l| l == w).unwrap_or_else(|| panic!("deep-pass letter {} not in the alphabet {:?}", w, letters))).collect();
    let res = crate::seq::explore_all_histories(m, &[], &sub, depth, crate::util::workers(), std::time::Duration::from_secs(budget_s));
    run.cov("deep_pass", json!({"alphabet": wanted, "depth": depth, "histories": res.histories, "transitions": res.transitions, "complete": res.exhausted_bound, "merging": false}));
    let ex = run.coverage.get("exhaustive").and_then(|v| v.as_bool()).unwrap_or(false);
    let depth_bound = run.coverage.get("depth_bound").cloned();
    let cfg = SeqConfig { max_depth: depth, workers: 0, max_states: 0, budget: std::time::Duration::from_secs(0) };
    seq_report(run, m, &res, &cfg);
    run.cov("exhaustive", json!(ex && res.exhausted_bound));
    if let Some(d) = depth_bound {
        run.cov("depth_bound", d);
    }
}

pub fn dispatch(run: &mut Run) -> bool {
    match run.property.as_str() {
        "C01" => c01::run(run),
        "C02" => c02::run(run),
        "C03" => c03::run(run),
        "C04" => c04::run(run),
        "C05" => c05::run(run),
        "C06" => c06::run(run),
        "C07" => c07::run(run),
        "C08" => c08::run(run),
        "C09" => c09::run(run),
        "C10" => c10::run(run),
        "C11" => c11::run(run),
        "C12" => c12::run(run),
        "C13" => c13::run(run),
        "C14" => c14::run(run),
        "C15" => c15::run(run),
        "C16" => c16::run(run),
        "C17" => c17::run(run),
        "C18" => c18::run(run),
        "C19" => c19::run(run),
        "C20" => c20::run(run),
        _ => return false,
    }
    true
}


/// Re-execute a recorded SEQ counterexample outside the explorer, twice, and print what happens.
fn replay_seq<M: SeqModel>(m: &M, names: &[String]) -> Option<i32> {
    let letters = m.letters();
    let mut hist = vec![];
    for n in names {
        match letters.iter().position(|l| l == n) {
            Some(i) => hist.push(i),
            None => return None,
        }
    }
    let mut runs = vec![];
    for round in 0..2 {
        let (steps, key) = crate::seq::run_history(m, &hist);
        let mut lines = vec![];
        for (i, vs) in steps.iter().enumerate() {
            let verdict = if vs.is_empty() { "ok".to_string() } else { vs.iter().map(|v| format!("{}{}: {}", if v.soft { "(known deviation) " } else { "" }, v.clause, v.detail)).collect::<Vec<_>>().join(" | ") };
            lines.push(format!("  step {} {} -> {}", i + 1, names[i], verdict));
        }
        if round == 0 {
            for l in lines.iter() {
                println!("{}", l);
            }
        }
        runs.push((lines, crate::util::hash128(&key)));
    }
    if runs[0] != runs[1] {
        println!("machinery: the two replays differ (nondeterminism)");
        return Some(2);
    }
    println!("replayed twice with identical observations");
    let violated = runs[0].0.iter().any(|l| !l.ends_with("-> ok") && !l.contains("(known deviation)"));
    Some(if violated { 1 } else { 0 })
}

pub fn replay(path: &str) -> i32 {
    let text = match std::fs::read_to_string(path) {
        Ok(t) => t,
        Err(e) => {
            eprintln!("cannot read {}: {}", path, e);
            return 2;
        }
    };
    let j: serde_json::Value = match serde_json::from_str(&text) {
        Ok(j) => j,
        Err(e) => {
            eprintln!("bad replay file: {}", e);
            return 2;
        }
    };
    let prop = j["property"].as_str().unwrap_or("").to_string();
    println!("property {} clause {} shape {}", prop, j["clause"], j["shape"]);
    println!("recorded detail: {}", j["detail"].as_str().unwrap_or(""));
    let r = &j["replay"];
    if r["engine"] == "seq" {
        let names: Vec<String> = r["letters"].as_array().map(|a| a.iter().filter_map(|x| x.as_str().map(|s| s.to_string())).collect()).unwrap_or_default();
        println!("history: {:?}", names);
        for quick in [true, false] {
            let res = match prop.as_str() {
                "C01" => replay_seq(&c01::C01::new(quick), &names),
                "C02" => replay_seq(&c02::C02::new(quick), &names),
                "C06" => replay_seq(&c06::C06::new(quick), &names),
                _ => None,
            };
            if let Some(code) = res {
                return code;
            }
        }
        println!("(no in-process replayer for this property's model; re-run `./check {} quick` - the search is deterministic and shortest-first)", prop);
        return 0;
    }
    if r["engine"] == "net" && prop == "C07" {
        let script = r["script"].as_str().unwrap_or("");
        let path: Vec<String> = r["path"].as_array().map(|a| a.iter().filter_map(|x| x.as_str().map(|s| s.to_string())).collect()).unwrap_or_default();
        return c07::replay(script, &path);
    }
    if r["engine"] == "ilv" && (prop == "C02" || prop == "C04" || prop == "C19") {
        let programs: Vec<Vec<String>> = r["programs"].as_array().map(|a| a.iter().map(|p| p.as_array().map(|x| x.iter().filter_map(|s| s.as_str().map(|s| s.to_string())).collect()).unwrap_or_default()).collect()).unwrap_or_default();
        let choices: Vec<usize> = r["choices"].as_array().map(|a| a.iter().filter_map(|x| x.as_u64().map(|n| n as usize)).collect()).unwrap_or_default();
        let init: Option<Vec<String>> = r["init"].as_array().map(|a| a.iter().filter_map(|x| x.as_str().map(|s| s.to_string())).collect());
        let sessions = r["sessions"].as_u64().unwrap_or(0) as usize;
        let syscall_points = r["syscall_points"].as_bool().unwrap_or(false);
        return c02_ilv::replay_ilv(&prop, &programs, &choices, init, sessions, syscall_points);
    }
    if r["engine"] == "c05" {
        return c05::replay_case(r["case"].as_str().unwrap_or(""));
    }
    if r["engine"] == "net" && prop == "C13" {
        let script = r["script"].as_str().unwrap_or("");
        let path: Vec<String> = r["path"].as_array().map(|a| a.iter().filter_map(|x| x.as_str().map(|s| s.to_string())).collect()).unwrap_or_default();
        return c13::replay_cluster(script, &path);
    }
    if r["engine"] == "net" && (prop == "C04" || prop == "C14") {
        let script = r["script"].as_str().unwrap_or("");
        let path: Vec<String> = r["path"].as_array().map(|a| a.iter().filter_map(|x| x.as_str().map(|s| s.to_string())).collect()).unwrap_or_default();
        return cluster::replay_script(script, &path);
    }
    println!("engine {}: the recorded choice sequence / schedule / crash point is in the file; re-run `./check {} quick` to reproduce (searches are deterministic)", r["engine"], prop);
    println!("{}", serde_json::to_string_pretty(r).unwrap_or_default());
    0
}
