//! C07 — elections end with exactly one primary, the oldest node, and all agree.
//! NET engine with the real election code running on parked handler threads: all interleavings
//! of message deliveries, poll-loop wake-ups, grace sleeps, and timeouts (only at network silence).
use super::cluster::report_findings;
use crate::net::*;
use crate::report::Run;
use crate::world::*;
use nundb::bo::ClusterRole;
use serde_json::json;
use std::time::Duration;

#[derive(Clone, Debug)]
pub enum Trigger {
    /// all nodes start at once: everybody asks everybody to join, then runs its initial election
    SimultaneousStart,
    /// a settled cluster of n-1 nodes, then the last node starts and joins
    LateJoin,
    /// as LateJoin, the joining node being older than every node of the cluster (the primary role has to move)
    LateJoinOfOlderNode,
    /// a settled cluster of n-1 nodes; the last node was started on its own (it won its one-member
    /// election and is a primary too); then an administrator tells the cluster's primary `join <it>`
    LoneNodeJoinedLater,
    /// settled cluster, the primary dies
    PrimaryDies,
    /// as PrimaryDies, but the survivors notice the broken connections in the opposite order
    PrimaryDiesNoticedInReverse,
    /// as PrimaryDies, but every survivor notices the broken connection at a point of its own that
    /// the exploration chooses (one survivor may finish a whole election before the other notices)
    PrimaryDiesNoticedLater,
    /// as PrimaryDiesNoticedLater; in the default schedule the given survivor notices last of all
    PrimaryDiesNoticedLastBy(usize),
    /// settled cluster, `debug force-election` on node i
    ForceElection(usize),
    /// settled cluster, force-election on two nodes at once
    ForceElectionTwice(usize, usize),
    /// a settled cluster of n-1 nodes; node i is told `debug force-election` while the last node
    /// starts and asks every node to let it join (a join handled by a node that is a candidate)
    JoinDuringForcedElection(usize),
    /// a settled cluster of n-1 nodes whose primary dies while the last node starts and joins
    JoinDuringFailover,
    /// the primary dies, the survivors settle (default schedule), then the primary they elected dies too
    /// (a primary that got there by winning an election, announced over links opened while it was a secondary)
    SecondPrimaryDies,
}

#[derive(Clone, Debug)]
pub struct Config {
    pub nodes: usize,
    /// process ids by node index: smaller = started earlier = must win
    pub pids: Vec<u128>,
    pub trigger: Trigger,
}

impl Config {
    pub fn name(&self) -> String {
        format!("{} nodes, start order {:?}, {:?}", self.nodes, self.pids, self.trigger)
    }
}

pub fn settled_with_pids(n: usize, pids: &[u128]) -> Result<NetWorld, String> {
    // bring nodes up one after the other (fixed policy); the election decides who is primary
    let mut w = NetWorld::new(n, pids);
    let jw = Worker::spawn("join-n1", &w.nodes[0].node, false);
    w.nodes[0].started = true;
    w.nodes[0].join_worker = Some(jw);
    w.nodes[0].join_worker.as_ref().unwrap().run(WCmd::InitialElection)?;
    w.pump();
    w.run_to_quiescence(5000)?;
    for i in 1..n {
        w.join_cluster(i)?;
        w.run_to_quiescence(20000)?;
    }
    w.clients.retain(|c| !c.done);
    w.traffic.clear();
    w.problems.clear();
    Ok(w)
}

pub fn build(c: &Config) -> Result<NetWorld, String> {
    match &c.trigger {
        Trigger::SimultaneousStart => {
            let mut w = NetWorld::new(c.nodes, &c.pids);
            for i in 0..c.nodes {
                w.nodes[i].started = true;
            }
            for i in 0..c.nodes {
                for p in 0..c.nodes {
                    if p != i {
                        w.add_client(p, &[&format!("auth {} {}", USER, PWD), &format!("join {}", node_name(i)), "<eof>"], true);
                    }
                }
            }
            for i in 0..c.nodes {
                let jw = Worker::spawn(&format!("join-n{}", i + 1), &w.nodes[i].node, false);
                w.nodes[i].join_worker = Some(jw);
                w.nodes[i].join_worker.as_ref().unwrap().run(WCmd::InitialElection)?;
            }
            w.pump();
            Ok(w)
        }
        Trigger::LateJoin | Trigger::LateJoinOfOlderNode => {
            let mut w = settled_with_pids_partial(c.nodes, &c.pids)?;
            w.join_cluster(c.nodes - 1)?;
            Ok(w)
        }
        Trigger::LoneNodeJoinedLater => {
            let mut w = settled_with_pids_partial(c.nodes, &c.pids)?;
            let i = c.nodes - 1;
            w.nodes[i].started = true;
            let jw = Worker::spawn(&format!("join-n{}", i + 1), &w.nodes[i].node, false);
            w.nodes[i].join_worker = Some(jw);
            w.nodes[i].join_worker.as_ref().unwrap().run(WCmd::InitialElection)?;
            w.pump();
            w.run_to_quiescence(5000)?;
            w.clients.retain(|c| !c.done);
            w.problems.clear();
            w.add_client(0, &[&format!("auth {} {}", USER, PWD), &format!("join {}", node_name(i)), "<eof>"], true);
            Ok(w)
        }
        Trigger::PrimaryDies | Trigger::PrimaryDiesNoticedInReverse => {
            let mut w = settled_with_pids(c.nodes, &c.pids)?;
            let p = (0..c.nodes).find(|i| w.role(*i) == ClusterRole::Primary).ok_or("no primary after bootstrap")?;
            w.kill_node_noticed(p, matches!(c.trigger, Trigger::PrimaryDiesNoticedInReverse))?;
            Ok(w)
        }
        Trigger::PrimaryDiesNoticedLater | Trigger::PrimaryDiesNoticedLastBy(_) => {
            let mut w = settled_with_pids(c.nodes, &c.pids)?;
            let p = (0..c.nodes).find(|i| w.role(*i) == ClusterRole::Primary).ok_or("no primary after bootstrap")?;
            if let Trigger::PrimaryDiesNoticedLastBy(n) = &c.trigger {
                w.eof_last = vec![*n];
            }
            w.kill_node_lazily(p)?;
            Ok(w)
        }
        Trigger::SecondPrimaryDies => {
            let mut w = settled_with_pids(c.nodes, &c.pids)?;
            let p = (0..c.nodes).find(|i| w.role(*i) == ClusterRole::Primary).ok_or("no primary after bootstrap")?;
            w.kill_node_noticed(p, false)?;
            w.run_to_quiescence(20000)?;
            let p2 = (0..c.nodes).find(|i| w.nodes[*i].alive && w.role(*i) == ClusterRole::Primary).ok_or("no primary after the first failover")?;
            w.clients.retain(|c| !c.done);
            w.traffic.clear();
            w.problems.clear();
            w.kill_node_lazily(p2)?;
            Ok(w)
        }
        Trigger::ForceElection(i) => {
            let mut w = settled_with_pids(c.nodes, &c.pids)?;
            w.add_client(*i, &[&format!("auth {} {}", USER, PWD)], false);
            w.run_to_quiescence(1000)?;
            let ci = w.clients.len() - 1;
            w.clients[ci].script = vec!["debug force-election".to_string()].into();
            w.clients[ci].done = false;
            Ok(w)
        }
        Trigger::JoinDuringForcedElection(i) => {
            let mut w = settled_with_pids_partial(c.nodes, &c.pids)?;
            w.add_client(*i, &[&format!("auth {} {}", USER, PWD)], false);
            w.run_to_quiescence(1000)?;
            let ci = w.clients.len() - 1;
            w.clients[ci].script = vec!["debug force-election".to_string()].into();
            w.clients[ci].done = false;
            w.join_cluster(c.nodes - 1)?;
            Ok(w)
        }
        Trigger::JoinDuringFailover => {
            let mut w = settled_with_pids_partial(c.nodes, &c.pids)?;
            let p = (0..c.nodes - 1).find(|i| w.role(*i) == ClusterRole::Primary).ok_or("no primary after bootstrap")?;
            w.kill_node_lazily(p)?;
            w.join_cluster(c.nodes - 1)?;
            Ok(w)
        }
        Trigger::ForceElectionTwice(a, b) => {
            let mut w = settled_with_pids(c.nodes, &c.pids)?;
            w.add_client(*a, &[&format!("auth {} {}", USER, PWD)], false);
            w.add_client(*b, &[&format!("auth {} {}", USER, PWD)], false);
            w.run_to_quiescence(1000)?;
            let n = w.clients.len();
            for ci in [n - 2, n - 1] {
                w.clients[ci].script = vec!["debug force-election".to_string()].into();
                w.clients[ci].done = false;
            }
            Ok(w)
        }
    }
}

/// all but the last node are up and settled; the last one is not started yet (it exists but knows nobody)
fn settled_with_pids_partial(n: usize, pids: &[u128]) -> Result<NetWorld, String> {
    let mut w = NetWorld::new(n, pids);
    let jw = Worker::spawn("join-n1", &w.nodes[0].node, false);
    w.nodes[0].started = true;
    w.nodes[0].join_worker = Some(jw);
    w.nodes[0].join_worker.as_ref().unwrap().run(WCmd::InitialElection)?;
    w.pump();
    w.run_to_quiescence(5000)?;
    for i in 1..(n - 1) {
        w.join_cluster(i)?;
        w.run_to_quiescence(20000)?;
    }
    w.clients.retain(|c| !c.done);
    w.problems.clear();
    Ok(w)
}

fn oracle(w: &NetWorld, c: &Config) -> Vec<(String, String)> {
    let mut out = vec![];
    let live: Vec<usize> = (0..w.nodes.len()).filter(|i| w.nodes[*i].alive).collect();
    let oldest = *live.iter().min_by_key(|i| c.pids[**i]).unwrap();
    let primaries: Vec<usize> = live.iter().cloned().filter(|i| w.role(*i) == ClusterRole::Primary).collect();
    let roles: Vec<String> = live.iter().map(|i| format!("n{}={}", i + 1, w.role(*i))).collect();
    if primaries.len() != 1 {
        out.push((if primaries.is_empty() { "no-primary" } else { "several-primaries" }.to_string(), format!("{} primaries when the cluster is quiet; roles {:?}", primaries.len(), roles)));
        return out;
    }
    if primaries[0] != oldest {
        out.push(("primary-is-not-the-oldest-node".to_string(), format!("the oldest live node is not the primary; oldest n{} primary n{} roles {:?}", oldest + 1, primaries[0] + 1, roles)));
    }
    for i in live.iter() {
        if *i != primaries[0] && w.role(*i) != ClusterRole::Secoundary {
            out.push(("node-neither-primary-nor-secondary".to_string(), format!("a node is still starting up when the cluster is quiet; roles {:?}", roles)));
        }
        // what cluster-state on node i says
        let named: Vec<String> = w.members(*i).into_iter().filter(|m| m.contains(":Primary:")).map(|m| m.split(':').take(2).collect::<Vec<_>>().join(":")).collect();
        if named != vec![w.names[primaries[0]].clone()] {
            out.push(("cluster-state-names-another-primary".to_string(), format!("a node's cluster-state does not name the primary (and only it); n{} lists primaries {:?}, the primary is {} ; members {:?}", i + 1, named, w.names[primaries[0]], w.members(*i))));
        }
    }
    out
}

pub fn configs(quick: bool) -> Vec<Config> {
    // nodes brought up one after the other have ascending start times; only a simultaneous start
    // can have either node older
    let mut v = vec![];
    v.push(Config { nodes: 2, pids: vec![100, 200], trigger: Trigger::LateJoin });
    // the joiner is OLDER than the settled cluster's primary: the primary role has to move to it
    v.push(Config { nodes: 2, pids: vec![200, 100], trigger: Trigger::LateJoinOfOlderNode });
    v.push(Config { nodes: 3, pids: vec![200, 300, 100], trigger: Trigger::LateJoinOfOlderNode });
    v.push(Config { nodes: 2, pids: vec![100, 200], trigger: Trigger::SimultaneousStart });
    v.push(Config { nodes: 2, pids: vec![200, 100], trigger: Trigger::SimultaneousStart });
    v.push(Config { nodes: 2, pids: vec![100, 200], trigger: Trigger::LoneNodeJoinedLater });
    v.push(Config { nodes: 3, pids: vec![100, 200, 300], trigger: Trigger::LoneNodeJoinedLater });
    v.push(Config { nodes: 2, pids: vec![100, 200], trigger: Trigger::PrimaryDies });
    for i in 0..2 {
        v.push(Config { nodes: 2, pids: vec![100, 200], trigger: Trigger::ForceElection(i) });
    }
    v.push(Config { nodes: 2, pids: vec![100, 200], trigger: Trigger::ForceElectionTwice(0, 1) });
    v.push(Config { nodes: 3, pids: vec![100, 200, 300], trigger: Trigger::PrimaryDies });
    v.push(Config { nodes: 3, pids: vec![100, 200, 300], trigger: Trigger::PrimaryDiesNoticedInReverse });
    v.push(Config { nodes: 3, pids: vec![100, 200, 300], trigger: Trigger::SecondPrimaryDies });
    v.push(Config { nodes: 3, pids: vec![100, 200, 300], trigger: Trigger::PrimaryDiesNoticedLater });
    v.push(Config { nodes: 3, pids: vec![100, 200, 300], trigger: Trigger::PrimaryDiesNoticedLastBy(1) });
    v.push(Config { nodes: 3, pids: vec![100, 200, 300], trigger: Trigger::PrimaryDiesNoticedLastBy(2) });
    v.push(Config { nodes: 3, pids: vec![100, 200, 300], trigger: Trigger::LateJoin });
    v.push(Config { nodes: 3, pids: vec![100, 200, 300], trigger: Trigger::ForceElection(1) });
    v.push(Config { nodes: 3, pids: vec![100, 200, 300], trigger: Trigger::JoinDuringForcedElection(1) });
    if !quick {
        v.push(Config { nodes: 3, pids: vec![100, 200, 300], trigger: Trigger::JoinDuringForcedElection(0) });
        v.push(Config { nodes: 4, pids: vec![100, 200, 300, 400], trigger: Trigger::JoinDuringFailover });
        // (SecondPrimaryDies on 4 nodes was tried and withdrawn: under the default schedule, which builds the start
        // state, the three survivors of the first death did not go quiet within 20000 steps - the schedule starves
        // one node's deliveries while the other two multiply candidacies - and a start state that cannot be built is
        // a machinery error, not a verdict)
        for i in [0, 2] {
            v.push(Config { nodes: 3, pids: vec![100, 200, 300], trigger: Trigger::ForceElection(i) });
        }
        v.push(Config { nodes: 3, pids: vec![100, 200, 300], trigger: Trigger::SimultaneousStart });
        v.push(Config { nodes: 3, pids: vec![300, 100, 200], trigger: Trigger::SimultaneousStart });
    }
    v
}

pub fn run(run: &mut Run) {
    crate::net::init_sleep_sites();
    let quick = run.quick();
    let mut cfgs = configs(quick);
    // diagnostic: NUNMC_C07_ONLY=<substring of a configuration name> restricts the run (never set by MANIFEST commands)
    if let Ok(only) = std::env::var("NUNMC_C07_ONLY") {
        cfgs.retain(|c| c.name().contains(&only));
    }
    // every configuration is explored by one thread, depth first, with a state cap: the explored
    // part is the same on every run (a time cap or a shared work stack would make it vary)
    let cap_override = crate::util::env_u64("NUNMC_C07_CAP", 0) as usize;
    let cap_for = |nodes: usize| if cap_override > 0 { cap_override } else if quick { if nodes == 2 { 700 } else { 100 } } else if nodes == 2 { 12000 } else { 2000 };
    let max_states = cap_for(2);
    let results: std::sync::Mutex<Vec<(usize, Result<(NetStats, Vec<NetFinding>, u64, u64), String>)>> = std::sync::Mutex::new(vec![]);
    let idx = std::sync::atomic::AtomicUsize::new(0);
    let workers = match crate::util::workers() {
        0 => std::thread::available_parallelism().map(|n| n.get()).unwrap_or(4),
        n => n,
    };
    std::thread::scope(|s| {
        for _ in 0..workers.min(cfgs.len()) {
            s.spawn(|| loop {
                let i = idx.fetch_add(1, std::sync::atomic::Ordering::SeqCst);
                if i >= cfgs.len() {
                    break;
                }
                let c = &cfgs[i];
                let cfg = NetCfg { max_states: cap_for(c.nodes), max_path: 400, budget: Duration::from_secs(if quick { 300 } else { 3600 }), workers: 1, by_deviations: false };
                let mk = || build(c);
                let none = |_: &NetWorld, _: &[T]| -> Vec<(String, String)> { vec![] };
                let good = std::sync::atomic::AtomicU64::new(0);
                let bad = std::sync::atomic::AtomicU64::new(0);
                let onq = |w: &NetWorld, _: &[T]| {
                    let r = oracle(w, c);
                    if r.is_empty() { &good } else { &bad }.fetch_add(1, std::sync::atomic::Ordering::Relaxed);
                    r
                };
                // two passes over the same configuration: iterative deviation bounding (the default
                // schedule, then every schedule one departure away from it, then two, ...) reaches
                // the quiet states that need few reorderings; depth first then goes deep near the end
                let cfg_dev = NetCfg { max_states: cap_for(c.nodes), max_path: 400, budget: Duration::from_secs(if quick { 300 } else { 3600 }), workers: 1, by_deviations: true };
                let r = explore_net(&mk, &none, &onq, &cfg_dev).and_then(|(st1, mut f1)| {
                    explore_net(&mk, &none, &onq, &cfg).map(|(mut st, f)| {
                        f1.extend(f);
                        st.deviations_completed = st1.deviations_completed;
                        st.states += st1.states;
                        st.transitions += st1.transitions;
                        st.replays += st1.replays;
                        st.quiescent_states += st1.quiescent_states;
                        st.paths_finished_fairly += st1.paths_finished_fairly;
                        st.max_path = st.max_path.max(st1.max_path);
                        if st.cap.is_none() {
                            // the depth-first pass covered everything
                            st.cap = None;
                        }
                        (st, f1, good.load(std::sync::atomic::Ordering::Relaxed), bad.load(std::sync::atomic::Ordering::Relaxed))
                    })
                });
                results.lock().unwrap().push((i, r));
            });
        }
    });
    let mut res = results.into_inner().unwrap();
    res.sort_by_key(|r| r.0);
    let mut per = vec![];
    let mut capped = 0;
    for (i, r) in res {
        let c = &cfgs[i];
        match r {
            Ok((st, findings, g, b)) => {
                run.cov_add("states", st.states);
                run.cov_add("transitions", st.transitions);
                run.cov_add("traces_validated_against_impl", st.replays);
                if st.cap.is_some() {
                    capped += 1;
                }
                per.push(json!({"config": c.name(), "states": st.states, "quiescent_states": st.quiescent_states, "quiet_states_ok": g, "quiet_states_violating": b, "max_path": st.max_path, "cap": st.cap, "deviations_completed": st.deviations_completed, "paths_finished_with_fair_schedule": st.paths_finished_fairly}));
                let trig = format!("{:?}", c.trigger);
                let trig = trig.split('(').next().unwrap_or("").to_string();
                let shape_pre = format!("{} nodes, {}", c.nodes, trig);
                report_findings(run, "C07", &c.name(), findings, &|f| format!("{}: {}", shape_pre, f.detail.split(';').next().unwrap_or("").replace(|ch: char| ch.is_ascii_digit(), "#")));
                if g == 0 && b > 0 {
                    // not one explored delivery order ends well: more than a race
                    run.violate(crate::report::Violation {
                        clause: "no-delivery-order-ends-correctly".into(),
                        shape: format!("{} {:?}", shape_pre, c.pids),
                        detail: format!("{}: all {} quiet states reached violate the property", c.name(), b),
                        replay: json!({"engine":"net","property":"C07","config":c.name()}),
                    });
                }
            }
            Err(e) => {
                eprintln!("machinery: NET exploration of {} failed: {}", c.name(), e);
                std::process::exit(2);
            }
        }
    }
    run.cov("configurations", json!(per));
    run.cov("configs_capped", json!(capped));
    run.cov("state_cap_per_configuration", json!(max_states));
    run.cov("exhaustive", json!(capped == 0));
    run.sample(json!(cfgs[0].name()));
    run.assume("timing: the 1 s start-up sleep and the election timeouts fire only when no message or join connection can make progress (messages are faster than the election timeout); the 100 ms grace sleep may end at any time");
    run.assume("a poll-loop iteration is explored only when the waiter's node changed since it last looked (an iteration on unchanged state observes nothing new)");
    run.assume("a branch longer than 400 transitions is not explored further but finished with the fair schedule (oldest enabled transition first) and its quiet state judged; only a fair run that does not go quiet counts against termination (a schedule that holds one message back for hundreds of steps is outside the property's premise on message delays); fair cycles are reported separately as livelock");
    run.assume("each configuration is explored twice by one thread, by ascending number of deviations from the default schedule and depth-first, each up to a state cap, so the covered part is identical on every run; configurations that hit the cap are reported as capped");
}

/// `./check replay <file>` for a C07 counterexample: the configuration is rebuilt, the recorded
/// transitions are taken one by one (a transition that is not enabled is a hard error), and the
/// messages on the links, the roles and the verdict of the oracle are printed.
pub fn replay(script: &str, path: &[String]) -> i32 {
    crate::net::init_sleep_sites();
    let c = match configs(false).into_iter().chain(configs(true)).find(|c| c.name() == script) {
        Some(c) => c,
        None => {
            eprintln!("unknown C07 configuration {:?}", script);
            return 2;
        }
    };
    let mut w = match build(&c) {
        Ok(w) => w,
        Err(e) => {
            eprintln!("machinery: cannot build {}: {}", script, e);
            return 2;
        }
    };
    w.pump();
    w.traffic.clear();
    for (i, want) in path.iter().enumerate() {
        let en = w.enabled(true);
        let t = match en.iter().find(|t| format!("{:?}", t) == *want) {
            Some(t) => t.clone(),
            None => {
                eprintln!("replay divergence at step {}: {} is not enabled; enabled {:?}", i, want, en);
                w.shutdown();
                return 2;
            }
        };
        if let Err(e) = w.apply(&t) {
            eprintln!("machinery: {}", e);
            return 2;
        }
        let roles: Vec<String> = (0..c.nodes).map(|n| format!("n{}={}", n + 1, w.role(n))).collect();
        let msgs: Vec<String> = w.traffic.drain(..).map(|(f, t, m)| format!("n{}->n{} {}", f + 1, t + 1, m)).collect();
        println!("{:4} {:28} {} {}", i, want, roles.join(" "), if msgs.is_empty() { String::new() } else { format!("| {}", msgs.join(" | ")) });
    }
    if path.is_empty() {
        // no recorded path: follow the default schedule, printing every step
        let mut i = 0;
        loop {
            let en = w.enabled(true);
            if en.is_empty() || i > 400 {
                break;
            }
            let t = en[0].clone();
            if let Err(e) = w.apply(&t) {
                eprintln!("machinery: {}", e);
                return 2;
            }
            let roles: Vec<String> = (0..c.nodes).map(|n| format!("n{}={}", n + 1, w.role(n))).collect();
            let msgs: Vec<String> = w.traffic.drain(..).map(|(f, t, m)| format!("n{}->n{} {}", f + 1, t + 1, m)).collect();
            println!("{:4} {:28} {} {}", i, format!("{:?}", t), roles.join(" "), if msgs.is_empty() { String::new() } else { format!("| {}", msgs.join(" | ")) });
            i += 1;
        }
    }
    let mut en = w.enabled(true);
    println!("enabled afterwards: {:?}", en);
    if !en.is_empty() && path.len() >= 400 {
        println!("the branch was cut here; finishing with the fair schedule (oldest enabled transition first)");
        match w.run_fair(crate::net::FAIR_TAIL_STEPS) {
            Ok(Ok(n)) => println!("quiet after {} more steps", n),
            Ok(Err(n)) => {
                println!("NOT quiet after {} more steps", n);
                w.shutdown();
                return 1;
            }
            Err(e) => {
                eprintln!("machinery: {}", e);
                return 2;
            }
        }
        en = w.enabled(true);
    }
    if en.is_empty() {
        let r = oracle(&w, &c);
        println!("quiet; oracle: {:?}", r);
        w.shutdown();
        return if r.is_empty() { 0 } else { 1 };
    }
    w.shutdown();
    0
}
