//! C08 — secure ($$) keys are invisible and immutable to non-administrators.
//! SEQ over pairs of worlds that differ only in what administrators stored under $$ keys.
use super::lines::*;
use crate::report::Run;
use crate::seq::*;
use crate::world::*;
use std::collections::BTreeMap;

#[derive(Clone, Copy, Debug, PartialEq)]
pub enum Kind {
    DbToken,
    UserFull,
    UserNoPerms,
    NoSelection,
    Admin,
    /// a database-token session on a node that is a secondary and knows its primary: what the
    /// node forwards to the primary is part of what the session can cause
    DbTokenOnSecondary,
    UserNoPermsOnSecondary,
}

pub struct Side {
    node: Node,
    admin: Session,
    sess: Session,
    secure0: BTreeMap<String, (String, i32)>,
    touch: usize,
    /// what the node sends to its primary (only when it runs as a secondary)
    to_primary: Option<futures::channel::mpsc::Receiver<String>>,
}

pub struct W2 {
    a: Side,
    b: Side,
}

// (the last two are lists: a `$$` name hidden behind a separator after a plain name, and before it)
const KEYS: &[&str] = &["$$token", "$$user_x", "$$permission_$x", "$$secret", "$secret", "secret", "*", "$$*", "*$$", "secret,$$secret", "$$secret,secret", "secret|$$secret"];

fn secure_view(node: &Node) -> BTreeMap<String, (String, i32)> {
    with_db(&node.dbs, "t", |db| {
        dump_db(db)
            .iter()
            .filter(|(k, _)| k.starts_with("$$"))
            .map(|(k, v)| (k.clone(), (v.value.clone(), v.state as i32)))
            .collect()
    })
    .unwrap_or_default()
}

fn make_side(kind: Kind, second: bool) -> Side {
    let node = Node::new_single("c08");
    let mut admin = Session::new();
    admin.exec(&node, &format!("auth {} {}", USER, PWD));
    admin.exec(&node, "create-db t tok none");
    admin.exec(&node, "use-db t tok");
    admin.exec(&node, "set secret plain");
    admin.exec(&node, "set $secret onedollar");
    // plain keys that sort before and after the `$$` block (listing code may rely on the order)
    admin.exec(&node, "set !first plain");
    admin.exec(&node, "set ~last plain");
    admin.exec(&node, "create-user bob bt");
    if kind == Kind::UserFull {
        admin.exec(&node, "set-permissions bob rwix *");
    }
    // the part that differs between the two worlds
    if !second {
        admin.exec(&node, "set $$secret alpha");
        admin.exec(&node, "create-user x tx1");
        admin.exec(&node, "set-permissions x r a*");
    } else {
        admin.exec(&node, "set $$secret beta-longer");
        admin.exec(&node, "create-user x tx2");
        admin.exec(&node, "set-permissions x rwix *|r b*");
        admin.exec(&node, "set $$extra only-here");
    }
    let mut sess = Session::new();
    match kind {
        Kind::DbToken | Kind::DbTokenOnSecondary => {
            sess.exec(&node, "use-db t tok");
        }
        Kind::UserFull | Kind::UserNoPerms | Kind::UserNoPermsOnSecondary => {
            let o = sess.exec(&node, "use-db t bob bt");
            assert_eq!(o.resp, "Ok");
        }
        Kind::NoSelection => {}
        Kind::Admin => {
            sess.exec(&node, &format!("auth {} {}", USER, PWD));
            sess.exec(&node, "use-db t tok");
        }
    }
    let secure0 = secure_view(&node);
    let mut to_primary = None;
    if matches!(kind, Kind::DbTokenOnSecondary | Kind::UserNoPermsOnSecondary) {
        let (tx, rx) = futures::channel::mpsc::channel::<String>(1000);
        node.dbs.add_cluster_member(nundb::bo::ClusterMember { name: "primary:1".to_string(), role: nundb::bo::ClusterRole::Primary, sender: Some(tx) });
        node.set_role(nundb::bo::ClusterRole::Secoundary);
        to_primary = Some(rx);
    }
    let mut s = Side { node, admin, sess, secure0, touch: 0, to_primary };
    s.node.drain_queues();
    s
}

pub struct C08 {
    kind: Kind,
    letters: Vec<String>,
    /// letters that change session / subscription / plain-data state: prefixes are built from these
    expandable: Vec<bool>,
    full_depth: usize,
}

const ADMIN_TOUCH_SECRET: &str = "<admin writes a world-specific value to $$secret>";
const ADMIN_TOUCH_PLAIN: &str = "<admin writes the same value to secret in both worlds>";

impl C08 {
    pub fn new(kind: Kind, full_depth: usize) -> C08 {
        let mut letters = lines_for_keys(KEYS, "t", true);
        letters.push("auth u wrong".to_string());
        letters.push("use-db t tok".to_string());
        letters.push("use-db t bob bt".to_string());
        letters.push("use-db t wrong".to_string());
        letters.push("use-db t x wrong".to_string());
        letters.push("set-permissions bob rwix $$*".to_string());
        letters.push("create-user eve e1".to_string());
        // listing / watching patterns with stars on both sides of a `$$` text (how a pattern is classified and
        // what it is compared with are two different places in the code)
        for pat in ["*$$*", "*$$user*", "*$$secret*", "**$$*", "*$*", "$*$*", "*secret*", "*$$"] {
            letters.push(format!("keys {}", pat));
            letters.push(format!("ls {}", pat));
            letters.push(format!("watch {}", pat));
            letters.push(format!("rp 5 keys {}", pat));
        }
        // entries of the conflict queue that name a `$$` key, written by the session itself (the queue's keys
        // start with one `$`, so any session may write them); the resolve lines of the alphabet carry id 5
        letters.push("set $conflicts_$$secret_5 waiting".to_string());
        letters.push("set $conflicts_$$token_5 waiting".to_string());
        letters.push("set-safe $conflicts_$$secret_5 0 waiting".to_string());
        let mut letters = dedup_by_parse(letters);
        letters.push(ADMIN_TOUCH_SECRET.to_string());
        letters.push(ADMIN_TOUCH_PLAIN.to_string());
        let session_letters = [
            "use-db t tok", "use-db t bob bt", "use-db t wrong", "use-db t x wrong", "auth u wrong", "arbiter", "unwatch-all",
            "watch $$token", "watch $$secret", "watch secret", "watch $secret", "watch *", "watch $$*", "watch secret,$$secret", "watch secret|$$secret",
            "unwatch $$secret", "unwatch secret", "set secret v", "set $secret v", "remove secret", "increment secret",
            "set-safe secret 7 v", ADMIN_TOUCH_SECRET, ADMIN_TOUCH_PLAIN,
            "set $conflicts_$$secret_5 waiting", "set $conflicts_$$token_5 waiting", "set-safe $conflicts_$$secret_5 0 waiting",
        ];
        for sl in session_letters.iter() {
            assert!(letters.iter().any(|l| l == sl), "session letter {} missing from alphabet", sl);
        }
        let expandable = letters.iter().map(|l| session_letters.contains(&l.as_str())).collect();
        C08 { kind, letters, expandable, full_depth }
    }
}

fn v(clause: &str, detail: String) -> Vec<StepViolation> {
    vec![StepViolation { clause: clause.to_string(), detail, shape: None, soft: false }]
}

fn side_key(s: &Side) -> String {
    let mut all = dump_all(&s.node.dbs);
    rank_opp_ids(&mut all);
    let watchers = with_db(&s.node.dbs, "t", |db| watcher_counts(db));
    format!(
        "{:?}|{:?}|{:?}|{:?}|{}",
        all,
        watchers,
        s.sess.client.selected_db_name(),
        s.sess.client.selected_db_user_name(),
        s.sess.client.is_admin_auth()
    )
}

impl SeqModel for C08 {
    type World = W2;
    fn letters(&self) -> Vec<String> {
        self.letters.clone()
    }
    fn new_world(&self) -> W2 {
        W2 { a: make_side(self.kind, false), b: make_side(self.kind, true) }
    }
    fn drop_world(&self, w: W2) {
        w.a.node.remove_dir();
        w.b.node.remove_dir();
    }
    fn key(&self, w: &W2) -> String {
        format!("{}##{}", side_key(&w.a), side_key(&w.b))
    }
    fn is_leaf(&self, letter: usize, depth: usize) -> bool {
        depth >= self.full_depth && !self.expandable[letter]
    }
    fn step(&self, w: &mut W2, letter: usize) -> Vec<StepViolation> {
        let line = self.letters[letter].clone();
        let mut obs = vec![];
        let mut forwarded: Vec<Vec<String>> = vec![];
        for (i, s) in [&mut w.a, &mut w.b].into_iter().enumerate() {
            s.node.ctx.install();
            let o = if line == ADMIN_TOUCH_SECRET {
                s.touch += 1;
                let val = format!("w{}-{}", i, s.touch);
                s.admin.exec(&s.node, &format!("set $$secret {}", val));
                s.secure0.insert("$$secret".to_string(), (val, 2));
                // the state byte of $$secret is New(3) or Updated(2); refresh from the node
                s.secure0 = secure_view(&s.node);
                Obs { resp: "-".into(), msgs: s.sess.drain(), panic: None }
            } else if line == ADMIN_TOUCH_PLAIN {
                s.touch += 1;
                s.admin.exec(&s.node, &format!("set secret p{}", s.touch));
                Obs { resp: "-".into(), msgs: s.sess.drain(), panic: None }
            } else {
                s.sess.exec(&s.node, &line)
            };
            s.node.drain_queues();
            let mut f = vec![];
            if let Some(rx) = s.to_primary.as_mut() {
                while let Ok(Some(m)) = rx.try_next() {
                    f.push(m);
                }
            }
            // the administrator's own writes in the two pseudo letters are forwarded too: not the session's doing
            if line == ADMIN_TOUCH_SECRET || line == ADMIN_TOUCH_PLAIN {
                f.clear();
            }
            forwarded.push(f);
            obs.push(o);
        }
        if let Some(p) = &obs[0].panic {
            // crashes are C10's business; the history is not continued
            return v("panic", format!("`{}` panicked: {}", line, p));
        }
        if self.kind != Kind::Admin {
            // a write the node passes on to its primary is applied there under cluster
            // authority: nothing that names a $$ key may leave on behalf of this session
            for (n, f) in [("A", &forwarded[0]), ("B", &forwarded[1])] {
                // the key a forwarded command names (not its value)
                let key_of = |m: &str| -> Option<String> {
                    let t: Vec<&str> = m.split(' ').collect();
                    match t.first().copied() {
                        Some("replicate") | Some("replicate-remove") | Some("replicate-increment") => t.get(2).map(|k| k.to_string()),
                        Some("resolve") => t.get(3).map(|k| k.to_string()),
                        _ => None,
                    }
                };
                if let Some(m) = f.iter().find(|m| key_of(m).map(|k| k.starts_with("$$")).unwrap_or(false)) {
                    return v("secure-key-write-forwarded-to-primary", format!("`{}` in world {}: the secondary forwarded {:?} to its primary", line, n, m));
                }
            }
            if forwarded[0] != forwarded[1] {
                return v("reply-depends-on-secure-keys", format!("`{}`: forwarded to the primary in world A {:?} / world B {:?}", line, forwarded[0], forwarded[1]));
            }
            if obs[0] != obs[1] {
                return v(
                    "reply-depends-on-secure-keys",
                    format!("`{}`: world A {:?} / world B {:?}", line, obs[0], obs[1]),
                );
            }
            for (n, s) in [("A", &w.a), ("B", &w.b)] {
                let now = secure_view(&s.node);
                if now != s.secure0 {
                    return v(
                        "secure-key-changed",
                        format!("`{}` in world {}: $$ keys before {:?} after {:?}", line, n, s.secure0, now),
                    );
                }
            }
        }
        for (n, s) in [("A", &w.a), ("B", &w.b)] {
            let now = secure_view(&s.node);
            match now.get("$$token") {
                Some((_, st)) if *st != nundb::bo::ValueStatus::Deleted as i32 => {}
                _ => return v("token-removed", format!("`{}` in world {}: $$token gone", line, n)),
            }
        }
        vec![]
    }
}

pub fn run(run: &mut Run) {
    let quick = run.quick();
    let kinds = [Kind::DbToken, Kind::UserFull, Kind::UserNoPerms, Kind::NoSelection, Kind::Admin, Kind::DbTokenOnSecondary, Kind::UserNoPermsOnSecondary];
    for kind in kinds {
        let m = C08::new(kind, if quick { 0 } else { 1 });
        let cfg = SeqConfig {
            max_depth: if kind == Kind::Admin { 2 } else if quick { 3 } else { 4 },
            workers: crate::util::workers(),
            max_states: 2_000_000,
            budget: std::time::Duration::from_secs(if quick { 12 } else { 600 }),
        };
        let res = explore(&m, &cfg);
        let before = run.violations.len();
        super::seq_report(run, &m, &res, &cfg);
        for v in run.violations[before..].iter_mut() {
            v.shape = format!("[{:?}] {}", kind, v.shape);
        }
        run.cov(&format!("session_{:?}", kind), serde_json::json!({"states": res.states, "transitions": res.transitions, "depth_completed": res.depth_completed, "exhausted": res.exhausted_bound}));
    }
    run.assume("deviation-bounded: prefixes range over the session/subscription/plain-data letters (all letters at the first step in the thorough tier), followed by every letter of the full alphabet once");
    run.assume("the attacker's alphabet never contains the world-specific secret values themselves (guessing a secret is an equality oracle by design)");
    run.assume("letters are all command words of Request::command_list() x argument shapes, deduplicated by the real parser's result");
}
