//! C01 — reads return the latest successful write (single node), SEQ vs plain-map model.
use super::kv::*;
use crate::report::Run;
use crate::seq::*;
use std::collections::BTreeSet;
use std::sync::Mutex;

#[derive(Clone, Debug)]
enum L {
    Set { admin: bool, key: &'static str, val: &'static str },
    SetSafe { key: &'static str, rel: i32, val: &'static str },
    Get { admin: bool, key: &'static str },
    GetSafe { key: &'static str },
    Remove { key: &'static str },
    Inc { key: &'static str, by: i32 },
    Keys { admin: bool, pat: &'static str },
    Snapshot { reclaim: bool },
}

const K1: &str = "ab";
const K2: &str = "ba";
const KS: &str = "$$s";

pub struct C01 {
    letters: Vec<L>,
    pub reply_kinds: Mutex<BTreeSet<String>>,
}

impl C01 {
    pub fn new(quick: bool) -> C01 {
        let mut l = vec![];
        let vals: &[&'static str] = if quick { &["", "1", "x y"] } else { &["", "1", "x y", "-7"] };
        for k in [K1, K2] {
            for v in vals {
                l.push(L::Set { admin: false, key: k, val: v });
            }
        }
        // integers next to both ends of the i32 range: an increment across either end is refused
        l.push(L::Set { admin: false, key: K1, val: "2147483647" });
        l.push(L::Set { admin: false, key: K1, val: "-2147483647" });
        // values that are nearly integers: blank-padded, signed, zero-padded, decimal, exponent (an increment
        // accepts exactly what is an integer as it stands and refuses the rest without changing it)
        for v in [" 5", "5 ", "+5", "007", "5.0", "1e1"] {
            l.push(L::Set { admin: false, key: K1, val: v });
        }
        l.push(L::Set { admin: true, key: KS, val: "s1" });
        l.push(L::Set { admin: false, key: KS, val: "s2" });
        for k in [K1, K2] {
            for rel in [-1, 0, 1] {
                l.push(L::SetSafe { key: k, rel, val: "9" });
            }
        }
        for k in [K1, K2] {
            l.push(L::Get { admin: false, key: k });
            l.push(L::GetSafe { key: k });
            l.push(L::Remove { key: k });
            l.push(L::Inc { key: k, by: 1 });
            l.push(L::Inc { key: k, by: -2 });
        }
        l.push(L::Get { admin: false, key: KS });
        l.push(L::Get { admin: true, key: KS });
        for pat in ["", "a*", "*a", "a", "$$*"] {
            l.push(L::Keys { admin: false, pat });
            if !quick || pat == "" || pat == "$$*" {
                l.push(L::Keys { admin: true, pat });
            }
        }
        // a key that IS the prefix / the suffix / the word of the pattern
        for pat in ["ab*", "*ab", "ab"] {
            l.push(L::Keys { admin: false, pat });
        }
        // patterns of every form (contains / prefix / suffix) that reach the names of $$ keys
        for pat in ["tok", "*en", "$", "$*", "*ken", "$$token", "o"] {
            l.push(L::Keys { admin: false, pat });
            if !quick {
                l.push(L::Keys { admin: true, pat });
            }
        }
        l.push(L::Snapshot { reclaim: false });
        l.push(L::Snapshot { reclaim: true });
        C01 { letters: l, reply_kinds: Mutex::new(BTreeSet::new()) }
    }
}

fn v(clause: &str, detail: String) -> Vec<StepViolation> {
    vec![StepViolation { clause: clause.to_string(), detail, shape: None, soft: false }]
}

impl SeqModel for C01 {
    type World = KvWorld;
    fn letters(&self) -> Vec<String> {
        self.letters.iter().map(|l| format!("{:?}", l)).collect()
    }
    fn new_world(&self) -> KvWorld {
        KvWorld::new("c01", "none")
    }
    fn drop_world(&self, w: KvWorld) {
        w.finish()
    }
    fn key(&self, w: &KvWorld) -> String {
        format!("{:?}|{}", w.model, w.impl_key())
    }
    fn step(&self, w: &mut KvWorld, letter: usize) -> Vec<StepViolation> {
        w.node.ctx.install();
        let before = w.db_dump();
        let l = self.letters[letter].clone();
        let (obs, expect_resp, expect_msgs, new_model): (_, Vec<String>, Vec<String>, _) = match &l {
            L::Set { admin, key, val } => {
                let line = format!("set {} {}", key, val);
                let sess = if *admin { &mut w.admin } else { &mut w.tok };
                let obs = sess.exec(&w.node, &line);
                if key.starts_with("$$") && !admin {
                    (obs, vec!["Error(To read security keys you must auth as an admin!)".into()], vec![], None)
                } else {
                    let mut m = w.model.clone();
                    m.insert(key.to_string(), val.to_string());
                    (obs, vec!["Ok".into()], vec![], Some(m))
                }
            }
            L::SetSafe { key, rel, val } => {
                let cur = w.cur_version(key);
                let line = format!("set-safe {} {} {}", key, cur + rel, val);
                let obs = w.tok.exec(&w.node, &line);
                // whether acceptance is right is C02's question; C01 applies it iff accepted
                if obs.resp == "Ok" {
                    let mut m = w.model.clone();
                    m.insert(key.to_string(), val.to_string());
                    (obs, vec!["Ok".into()], vec![], Some(m))
                } else {
                    let r = obs.resp.clone();
                    if !r.starts_with("VersionError(") {
                        return v("reply-mismatch", format!("{:?}: unexpected reply {:?}", l, obs));
                    }
                    (obs, vec![r], vec![], None)
                }
            }
            L::Get { admin, key } => {
                let sess = if *admin { &mut w.admin } else { &mut w.tok };
                let obs = sess.exec(&w.node, &format!("get {}", key));
                if key.starts_with("$$") && !admin {
                    (obs, vec!["Error(To read security keys you must auth as an admin!)".into()], vec![], None)
                } else {
                    let val = w.model.get(*key).cloned().unwrap_or("<Empty>".into());
                    // version is C02's business: accept any
                    let ver = obs.resp.rsplit(',').next().unwrap_or("").trim_end_matches(')').to_string();
                    (obs, vec![format!("Value({},{},{})", key, val, ver)], vec![format!("value {}\n", val)], None)
                }
            }
            L::GetSafe { key } => {
                let obs = w.tok.exec(&w.node, &format!("get-safe {}", key));
                let val = w.model.get(*key).cloned().unwrap_or("<Empty>".into());
                let ver = obs.resp.rsplit(',').next().unwrap_or("").trim_end_matches(')').to_string();
                (obs, vec![format!("Value({},{},{})", key, val, ver)], vec![format!("value-version {} {}\n", ver, val)], None)
            }
            L::Remove { key } => {
                let obs = w.tok.exec(&w.node, &format!("remove {}", key));
                let mut m = w.model.clone();
                m.remove(*key);
                (obs, vec!["Ok".into()], vec![], Some(m))
            }
            L::Inc { key, by } => {
                let obs = w.tok.exec(&w.node, &format!("increment {} {}", key, by));
                let cur = w.model.get(*key).cloned().unwrap_or("0".into());
                match parse_int(&cur).and_then(|c| c.checked_add(*by)) {
                    Some(n) => {
                        let mut m = w.model.clone();
                        m.insert(key.to_string(), n.to_string());
                        (obs, vec!["Ok".into()], vec![], Some(m))
                    }
                    // refused without a change: the reply names the reason
                    None if parse_int(&cur).is_some() => (obs, vec!["Error(Increment would overflow the key)".into()], vec![], None),
                    None => (obs, vec!["Error(Key is not numeric)".into()], vec![], None),
                }
            }
            L::Keys { admin, pat } => {
                let sess = if *admin { &mut w.admin } else { &mut w.tok };
                let line = if pat.is_empty() { "keys".to_string() } else { format!("keys {}", pat) };
                let obs = sess.exec(&w.node, &line);
                let ks = keys_reply(&model_keys(&w.model, pat, *admin));
                (obs, vec![format!("Value(keys,{},-1)", ks)], vec![format!("keys {}\n", ks)], None)
            }
            L::Snapshot { reclaim } => {
                let obs = w.admin.exec(&w.node, &format!("snapshot {}", reclaim));
                w.node.run_snapshot_queue();
                (obs, vec!["Ok".into()], vec![], None)
            }
        };
        w.node.drain_queues();
        w.steps += 1;
        {
            let kind = format!("{}:{}", format!("{:?}", l).split(' ').next().unwrap_or(""), obs.resp.split('(').next().unwrap_or(""));
            self.reply_kinds.lock().unwrap().insert(kind);
        }
        if let Some(p) = &obs.panic {
            return v("panic", format!("{:?} panicked: {} at {:?}", l, p, crate::world::take_panic_loc()));
        }
        if !expect_resp.contains(&obs.resp) || obs.msgs != expect_msgs {
            return v(
                "reply-mismatch",
                format!("{:?}: got {:?} {:?}, plain map gives {:?} {:?}", l, obs.resp, obs.msgs, expect_resp, expect_msgs),
            );
        }
        let is_error = obs.resp.starts_with("Error(") || obs.resp.starts_with("VersionError(");
        if is_error {
            let after = w.db_dump();
            if after != before {
                return v("refused-command-changed-state", format!("{:?}: before {:?} after {:?}", l, before, after));
            }
        }
        if let Some(m) = new_model {
            w.model = m;
        }
        if let Err(e) = w.read_paths_agree(&[K1, K2, KS]) {
            return v("state-mismatch", format!("after {:?}: {}", l, e));
        }
        vec![]
    }
}

pub fn run(run: &mut Run) {
    let quick = run.quick();
    let m = C01::new(quick);
    let cfg = SeqConfig {
        max_depth: if quick { 4 } else { 6 },
        workers: crate::util::workers(),
        max_states: if quick { 400_000 } else { 6_000_000 },
        budget: std::time::Duration::from_secs(if quick { 45 } else { 1500 }),
    };
    let res = explore(&m, &cfg);
    super::seq_report(run, &m, &res, &cfg);
    let deep = ["Set { admin: false, key: \"ab\", val: \"1\" }", "Set { admin: false, key: \"ab\", val: \"x y\" }", "Get { admin: false, key: \"ab\" }", "Remove { key: \"ab\" }", "Inc { key: \"ab\", by: 1 }", "Keys { admin: false, pat: \"\" }", "Snapshot { reclaim: false }", "Snapshot { reclaim: true }"];
    super::deep_pass(run, &m, &deep, if quick { 5 } else { 7 }, if quick { 30 } else { 900 });
    run.cov("distinct_reply_kinds", serde_json::json!(m.reply_kinds.lock().unwrap().iter().cloned().collect::<Vec<_>>()));
    run.assume("values without newline or ';' (transport framing is C20/C10); i32 overflow excluded (C10)");
    run.assume("set-safe acceptance is taken from the implementation (its correctness is C02)");
}
