//! C19 — newer-strategy databases accept every write; the last applied one wins.
//! SEQ over plain/versioned writes with a watcher attached + ILV for two concurrent writers.
use super::c02_ilv::{run_configs, Config};
use super::conc::*;
use super::kv::*;
use crate::report::Run;
use crate::seq::*;
use serde_json::json;
use std::time::Duration;

#[derive(Clone, Debug)]
enum L {
    Set { key: &'static str },
    SetSafe { key: &'static str, rel: i32 },
    Remove { key: &'static str },
    Inc { key: &'static str },
    Snapshot,
    /// a stale versioned write issued in the same clock tick as the change the key holds (a coarse
    /// clock): neither is "more recent"; whichever is kept, reply, watcher and replicas must agree
    SetSafeTied { key: &'static str },
}

pub struct W {
    kv: KvWorld,
    watcher: crate::world::Session,
    last_version: std::collections::BTreeMap<String, i32>,
    /// a secondary that receives everything the node queues for replication, in order
    replica: KvWorld,
    link: crate::world::Session,
    fed: usize,
}

impl W {
    /// pass what the primary queued on to the replica and compare the values of k and j
    fn replicate_and_compare(&mut self, what: &str) -> Vec<StepViolation> {
        let (msgs, _) = self.kv.node.drain_queues();
        self.replica.node.ctx.install();
        for m in msgs {
            if m.starts_with("replicate-snapshot") {
                continue;
            }
            self.fed += 1;
            self.link.exec(&self.replica.node, &format!("rp {} {}", 9000 + self.fed, m));
        }
        self.replica.node.drain_queues();
        let view = |n: &crate::world::Node| -> std::collections::BTreeMap<String, String> {
            crate::world::with_db(&n.dbs, "t", |db| crate::world::live_view(&crate::world::dump_db(db)).into_iter().filter(|(k, _)| k == "k" || k == "j").map(|(k, v)| (k, v.0)).collect()).unwrap_or_default()
        };
        let (p, r) = (view(&self.kv.node), view(&self.replica.node));
        self.kv.node.ctx.install();
        if p != r {
            return v("replica-differs-from-primary", format!("after {}: the primary holds {:?}, a secondary that applied the same writes in the primary's order holds {:?}", what, p, r));
        }
        vec![]
    }
}

pub struct C19 {
    letters: Vec<L>,
}

fn v(clause: &str, detail: String) -> Vec<StepViolation> {
    vec![StepViolation { clause: clause.to_string(), detail, shape: None, soft: false }]
}

impl SeqModel for C19 {
    type World = W;
    fn letters(&self) -> Vec<String> {
        self.letters.iter().map(|l| format!("{:?}", l)).collect()
    }
    fn new_world(&self) -> W {
        let kv = KvWorld::new("c19", "newer");
        let mut watcher = crate::world::Session::new();
        watcher.exec(&kv.node, "use-db t tok");
        watcher.exec(&kv.node, "watch k");
        watcher.exec(&kv.node, "watch j");
        let replica = KvWorld::new("c19r", "newer");
        let mut link = crate::world::Session::new();
        link.exec(&replica.node, &format!("auth {} {}", crate::world::USER, crate::world::PWD));
        link.exec(&replica.node, "set-primary primary:1");
        kv.node.ctx.install();
        let mut w = W { kv, watcher, last_version: Default::default(), replica, link, fed: 0 };
        w.kv.model.insert("$connections".into(), "3".into());
        w.kv.node.drain_queues();
        w.replica.node.drain_queues();
        w
    }
    fn drop_world(&self, w: W) {
        w.kv.finish();
        w.replica.finish()
    }
    fn key(&self, w: &W) -> String {
        format!("{:?}|{:?}|{}", w.kv.model, w.last_version, w.kv.impl_key())
    }
    fn step(&self, w: &mut W, letter: usize) -> Vec<StepViolation> {
        w.kv.node.ctx.install();
        let l = self.letters[letter].clone();
        w.kv.steps += 1;
        let val = format!("v{}", w.kv.steps);
        match &l {
            L::Snapshot => {
                w.kv.admin.exec(&w.kv.node, "snapshot false");
                w.kv.node.run_snapshot_queue();
                w.kv.node.drain_queues();
                return vec![];
            }
            L::Remove { key } => {
                let o = w.kv.tok.exec(&w.kv.node, &format!("remove {}", key));
                let rv = w.replicate_and_compare(&format!("remove {}", key));
                if o.resp != "Ok" {
                    return v("write-refused", format!("{:?}: {:?}", l, o));
                }
                if !rv.is_empty() {
                    return rv;
                }
                w.kv.model.remove(*key);
                w.last_version.remove(*key);
                let n = w.watcher.drain();
                if n != vec![format!("removed {}\n", key)] {
                    return v("watcher-mismatch", format!("{:?}: watcher got {:?}", l, n));
                }
                return vec![];
            }
            _ => {}
        }
        if let L::SetSafeTied { key } = &l {
            let cur = w.kv.cur_version(key);
            let old = match w.kv.model.get(*key) {
                Some(o) if cur >= 1 => o.clone(),
                // nothing to tie with (or no version that could be stale)
                _ => return vec![],
            };
            let line = format!("set-safe {} {} {}", key, cur - 1, val);
            // the clock reads, for the whole command, what it read when the stored change was issued
            let stamp = crate::world::with_db(&w.kv.node.dbs, "t", |db| crate::world::dump_db(db).get(*key).map(|x| x.opp_id)).flatten().unwrap_or(0);
            let now = w.kv.node.ctx.clock.load(std::sync::atomic::Ordering::SeqCst);
            w.kv.node.ctx.clock.store(stamp, std::sync::atomic::Ordering::SeqCst);
            w.kv.node.ctx.clock_hold.store(true, std::sync::atomic::Ordering::SeqCst);
            let o = w.kv.tok.exec(&w.kv.node, &line);
            w.kv.node.ctx.clock_hold.store(false, std::sync::atomic::Ordering::SeqCst);
            w.kv.node.ctx.clock.store(now, std::sync::atomic::Ordering::SeqCst);
            let rv = w.replicate_and_compare(&format!("`{}` issued in the clock tick of the stored change", line));
            if o.panic.is_some() {
                return v("panic", format!("`{}`: {:?}", line, o));
            }
            if !rv.is_empty() {
                return rv;
            }
            if o.resp != "Ok" {
                return v("write-refused", format!("`{}` (current version {}, same clock tick): {:?}", line, cur, o));
            }
            let stored = crate::world::with_db(&w.kv.node.dbs, "t", |db| crate::world::live_view(&crate::world::dump_db(db)).get(*key).map(|x| x.0.clone())).flatten();
            let n = w.watcher.drain();
            let changed: Vec<&String> = n.iter().filter(|m| m.starts_with("changed ")).collect();
            if stored.as_deref() == Some(val.as_str()) {
                w.kv.model.insert(key.to_string(), val.clone());
                if changed.len() != 1 || *changed[0] != format!("changed {} {}\n", key, val) {
                    return v("watcher-mismatch", format!("`{}` (same clock tick) stored {:?}; watcher got {:?}", line, val, n));
                }
            } else if stored.as_deref() == Some(old.as_str()) {
                if !changed.is_empty() {
                    return v("watcher-mismatch", format!("`{}` (same clock tick) kept {:?}; watcher got {:?}", line, old, n));
                }
            } else {
                return v("last-write-lost", format!("after `{}` (same clock tick) the key holds {:?}, neither the old {:?} nor the new value", line, stored, old));
            }
            if let Err(e) = w.kv.read_paths_agree(&["k", "j"]) {
                return v("last-write-lost", format!("after `{}` (same clock tick): {}", line, e));
            }
            let after = w.kv.cur_version(key);
            if let Some(prev) = w.last_version.get(*key) {
                if after < *prev {
                    return v("version-not-increasing", format!("`{}` (same clock tick): version {} -> {}", line, prev, after));
                }
            }
            w.last_version.insert(key.to_string(), after);
            return vec![];
        }
        let key = match &l {
            L::Set { key } | L::SetSafe { key, .. } | L::Inc { key } => *key,
            _ => unreachable!(),
        };
        let cur = w.kv.cur_version(key);
        let (line, newval) = match &l {
            L::Set { .. } => (format!("set {} {}", key, val), val.clone()),
            // a client can only hold versions >= 0; below-current versions are clamped at 0
            L::SetSafe { rel, .. } => (format!("set-safe {} {} {}", key, (cur + rel).max(0), val), val.clone()),
            L::Inc { .. } => {
                let c = w.kv.model.get(key).cloned().unwrap_or("0".into());
                match parse_int(&c) {
                    Some(n) => (format!("increment {}", key), (n + 1).to_string()),
                    None => {
                        let o = w.kv.tok.exec(&w.kv.node, &format!("increment {}", key));
                        w.kv.node.drain_queues();
                        if !o.resp.starts_with("Error(") {
                            return v("reply-mismatch", format!("{:?} on {:?}: {:?}", l, c, o));
                        }
                        if !w.watcher.drain().is_empty() {
                            return v("watcher-mismatch", format!("{:?}: refused increment notified", l));
                        }
                        return vec![];
                    }
                }
            }
            _ => unreachable!(),
        };
        let o = w.kv.tok.exec(&w.kv.node, &line);
        let rv = w.replicate_and_compare(&format!("`{}`", line));
        if o.panic.is_some() {
            return v("panic", format!("`{}`: {:?}", line, o));
        }
        if !rv.is_empty() {
            return rv;
        }
        if o.resp != "Ok" {
            return v("write-refused", format!("`{}` (current version {}): {:?}", line, cur, o));
        }
        // the most recently issued change wins: the value read back is the one just written
        w.kv.model.insert(key.to_string(), newval.clone());
        if let Err(e) = w.kv.read_paths_agree(&["k", "j"]) {
            return v("last-write-lost", format!("after `{}`: {}", line, e));
        }
        let after = w.kv.cur_version(key);
        if let Some(prev) = w.last_version.get(key) {
            if after <= *prev {
                return v("version-not-increasing", format!("`{}`: version {} -> {}", line, prev, after));
            }
        }
        w.last_version.insert(key.to_string(), after);
        // the watcher hears about the stored change, once
        let n = w.watcher.drain();
        let changed: Vec<&String> = n.iter().filter(|m| m.starts_with("changed ")).collect();
        if changed.len() != 1 || *changed[0] != format!("changed {} {}\n", key, newval) {
            return v("watcher-mismatch", format!("`{}` stored {:?}; watcher got {:?}", line, newval, n));
        }
        vec![]
    }
}

pub fn run(run: &mut Run) {
    let quick = run.quick();
    let mut letters = vec![];
    for key in ["k", "j"] {
        letters.push(L::Set { key });
        for rel in [-5, -1, 0, 1] {
            letters.push(L::SetSafe { key, rel });
        }
        letters.push(L::Remove { key });
        letters.push(L::Inc { key });
    }
    letters.push(L::Snapshot);
    letters.push(L::SetSafeTied { key: "k" });
    let m = C19 { letters };
    let cfg = SeqConfig { max_depth: if quick { 4 } else { 6 }, workers: crate::util::workers(), max_states: 3_000_000, budget: Duration::from_secs(if quick { 25 } else { 900 }) };
    let res = explore(&m, &cfg);
    super::seq_report(run, &m, &res, &cfg);
    let ex = run.coverage.get("exhaustive").and_then(|v| v.as_bool()).unwrap_or(false);

    // two concurrent writers under the controlled scheduler
    let setup = Setup { strategy: "newer", init: vec!["set k 1".into(), "set k 1".into()], session_init: vec![vec!["use-db t tok".to_string()], vec!["use-db t tok".to_string()], vec!["use-db t tok".to_string(), "watch k".to_string()]], check_replica: true };
    let base = super::c02_ilv::base_version(&setup);
    let menu = |t: usize| vec![format!("set k p{}", t), format!("set-safe k {} s{}", base, t), format!("set-safe k {} o{}", base - 1, t), "increment k".to_string()];
    let mut configs = vec![];
    for a in menu(0) {
        for b in menu(1) {
            configs.push(Config { linearizable: false, programs: vec![vec![a.clone()], vec![b.clone()]], bound: if quick { 3 } else { 99 }, max_exec: 200_000, budget: Duration::from_secs(if quick { 10 } else { 200 }) });
        }
    }
    if !quick {
        for a in menu(0) {
            for a2 in menu(0) {
                for b in menu(1) {
                    configs.push(Config { linearizable: false, programs: vec![vec![a.clone(), a2.clone()], vec![b.clone()]], bound: 2, max_exec: 200_000, budget: Duration::from_secs(200) });
                }
            }
        }
    }
    let extra = move |ops: &[OpRec], fin: &FinalView, watcher: &[String]| -> Option<(String, String)> {
        for o in ops {
            if o.line.starts_with("set") && o.resp != "Ok" {
                return Some(("write-refused".into(), format!("`{}` -> {}", o.line, o.resp)));
            }
        }
        // "resolved in favour of the most recently issued change": an accepted increment and an
        // accepted versioned write of one execution - the one whose change was created later (by the
        // node's own clock) is the one the key must hold
        if ops.len() == 2 && ops.iter().all(|o| o.resp == "Ok") {
            let inc = ops.iter().find(|o| o.line == "increment k");
            let ss = ops.iter().find(|o| o.line.starts_with("set-safe k "));
            if let (Some(inc), Some(ss), Some(cur)) = (inc, ss, fin.get("k")) {
                if let (Some(ti), Some(ts)) = (inc.ticks.first(), ss.ticks.first()) {
                    let ss_val = ss.line.rsplit(' ').next().unwrap_or("");
                    let holds_ss = cur.0 == ss_val;
                    if (ts > ti) != holds_ss {
                        // Known on the base tree: the stale check (set_value -> VersionError) and the
                        // resolution are two lock acquisitions; if the versioned write's check ran
                        // BEFORE the increment was applied, the resolution still compares against the
                        // value captured then and overwrites the increment.  That case is told apart
                        // by the schedule: the write's first map-lock acquisition precedes the increment's.
                        let sched = super::c02_ilv::LAST_SCHEDULE.with(|l| l.borrow().clone());
                        let first_write = |tid: usize| sched.iter().position(|p| p.starts_with(&format!("t{} write bo.rs", tid)));
                        let early_check = match (first_write(ss.tid), first_write(inc.tid)) {
                            (Some(a), Some(b)) => a < b,
                            _ => false,
                        };
                        let clause = if early_check && holds_ss { "older-change-won-after-early-version-check" } else { "older-change-won" };
                        return Some((clause.into(), format!("`{}` created its change at clock {}, `increment k` at {}; both were accepted and the key holds {:?}", ss.line, ts, ti, cur.0)));
                    }
                }
            }
        }
        let (val, ver) = match fin.get("k") {
            Some(v) => (v.0.clone(), v.1),
            None => return Some(("last-write-lost".into(), "key k vanished".into())),
        };
        if ver <= base {
            return Some(("version-not-increasing".into(), format!("version before {} after {}", base, ver)));
        }
        // the final value is one that was written (or counted)
        let written: Vec<String> = ops.iter().filter(|o| o.line.starts_with("set")).map(|o| o.line.rsplit(' ').next().unwrap().to_string()).collect();
        let incs = ops.iter().filter(|o| o.line == "increment k" && o.resp == "Ok").count();
        let plausible = written.contains(&val) || (incs > 0 && val.parse::<i64>().is_ok());
        if !plausible {
            return Some(("last-write-lost".into(), format!("final value {:?} was never written; ops {:?}", val, ops.iter().map(|o| format!("`{}`->{}", o.line, o.resp)).collect::<Vec<_>>())));
        }
        // the watcher ends up current: its highest-versioned notification carries the final value
        // (increments are announced without a version, so only set / set-safe programs are judged)
        if incs == 0 && !ops.iter().any(|o| o.line.starts_with("increment")) {
            let mut best: Option<(i32, String)> = None;
            for m in watcher.iter() {
                if let Some(rest) = m.strip_prefix("changed-version k ") {
                    let mut it = rest.trim_end_matches('\n').splitn(2, ' ');
                    if let (Some(v), Some(x)) = (it.next().and_then(|x| x.parse::<i32>().ok()), it.next()) {
                        if best.as_ref().map(|b| v >= b.0).unwrap_or(true) {
                            best = Some((v, x.to_string()));
                        }
                    }
                }
            }
            if best.as_ref().map(|b| b.1.clone()) != Some(val.clone()) {
                return Some(("watcher-not-current".into(), format!("final value {:?}, watcher stream {:?}", val, watcher)));
            }
        }
        None
    };
    let (exn, pts, capped, maxo) = run_configs(run, "C19", &setup, &configs, &extra);
    // "the reply says which value is now stored": the command layer answers `ok` to every accepted
    // write, the value is named by the write path underneath (db_ops::set_key_value ->
    // Response::Set{value}), so that is what two concurrent writers call here.  A writer whose
    // reply was decided after every other writer's last write to the map (it is the last to take
    // the lock of the key map) must name the value the key holds at the end.
    let setup_d = Setup { strategy: "newer", init: vec!["set k 1".into(), "set k 1".into()], session_init: vec![vec!["use-db t tok".to_string()], vec!["use-db t tok".to_string()]], check_replica: false };
    let menu_d = |t: usize| vec![format!("direct-set k -1 p{}", t), format!("direct-set k {} s{}", base, t), format!("direct-set k {} o{}", base - 1, t), format!("direct-set k 0 z{}", t)];
    let mut configs_d = vec![];
    for a in menu_d(0) {
        for b in menu_d(1) {
            configs_d.push(Config { linearizable: false, programs: vec![vec![a.clone()], vec![b.clone()]], bound: if quick { 3 } else { 99 }, max_exec: 200_000, budget: Duration::from_secs(if quick { 10 } else { 200 }) });
        }
    }
    let extra_d = move |ops: &[OpRec], fin: &FinalView, _w: &[String]| -> Option<(String, String)> {
        let sched = super::c02_ilv::LAST_SCHEDULE.with(|l| l.borrow().clone());
        let cur = fin.get("k").map(|v| v.0.clone());
        for o in ops {
            let named = match o.resp.strip_prefix("Set(k,").and_then(|r| r.strip_suffix(')')) {
                Some(v) => v.to_string(),
                None => return Some(("write-refused".into(), format!("`{}` -> {}", o.line, o.resp))),
            };
            // the key map is the lock a write takes first (its creation site names it in the schedule)
            let map_site = match sched.iter().find(|p| p.contains(" write ")).and_then(|p| p.rsplit(' ').next()) {
                Some(s) => s.to_string(),
                None => return None,
            };
            // position of this writer's last acquisition of the key map, and of the others' last write acquisition of it
            let me = format!("t{} ", o.tid);
            let mine = sched.iter().rposition(|p| p.starts_with(&me) && p.ends_with(&map_site));
            let others = sched.iter().rposition(|p| !p.starts_with(&me) && p.contains(" write ") && p.ends_with(&map_site));
            let decided_last = match (mine, others) {
                (Some(m), Some(x)) => m > x,
                (Some(_), None) => true,
                _ => false,
            };
            if decided_last && Some(named.clone()) != cur {
                return Some(("reply-names-a-value-not-stored".into(), format!("`{}` answered Set({}) after every other write had been applied; the key holds {:?}", o.line, named, cur)));
            }
        }
        None
    };
    let (exn_d, pts_d, capped_d, maxo_d) = run_configs(run, "C19", &setup_d, &configs_d, &extra_d);
    let (exn, pts, capped, maxo) = (exn + exn_d, pts + pts_d, capped + capped_d, maxo.max(maxo_d));
    run.cov("ilv_direct_write_path_configs", json!(configs_d.len()));
    run.cov_add("ilv_executions", exn);
    run.cov_add("ilv_scheduling_points", pts);
    run.cov_add("states", exn);
    run.cov_add("transitions", pts);
    run.cov_add("traces_validated_against_impl", exn);
    run.cov("ilv_configs", json!(configs.len() + configs_d.len()));
    run.cov("ilv_configs_capped", json!(capped));
    run.cov("ilv_max_distinct_outcomes_per_config", json!(maxo));
    run.cov("exhaustive", json!(ex && capped == 0));
    run.assume("sequential part: after every step the messages the node queued for replication are applied, in order, by a second node over one link, and the values of both keys must be equal on the two nodes");
    run.assume("every write carries a unique value, so 'the stored value changes' and 'the write was stored' coincide");
    run.assume("on one node the logical clock makes a later-issued change newer, so every write must win");
    run.assume("replicas: after every interleaving a fresh replica is fed the primary's replication queue in order and must end with the primary's value and version; executions in which the queue order differs from the order the primary applied the writes in (the same messages in another order reproduce the primary) are outside this property's premise 'applied in the primary's order' and are C04's finding KF-C04-03");
}
