//! C02 concurrent part: all interleavings (at lock-acquisition granularity, preemption-bounded)
//! of 2-3 clients issuing 1-2 of {set, set-safe base, increment, get-safe, remove} on a shared key.
use super::conc::*;
use crate::ilv::*;
use crate::report::{Run, Violation};
use serde_json::json;
use std::collections::BTreeSet;
use std::time::Duration;

pub fn menu(tid: usize, base: i32, reduced: bool) -> Vec<String> {
    let mut m = vec![format!("set-safe k {} s{}", base, tid), "increment k".to_string(), format!("set k {}", 10 + tid)];
    if !reduced {
        m.push("get-safe k".to_string());
        m.push("remove k".to_string());
    }
    m
}

pub fn programs_upto(tid: usize, base: i32, len: usize, reduced: bool) -> Vec<Vec<String>> {
    let m = menu(tid, base, reduced);
    let mut out: Vec<Vec<String>> = m.iter().map(|c| vec![c.clone()]).collect();
    if len >= 2 {
        for a in m.iter() {
            for b in m.iter() {
                out.push(vec![a.clone(), b.clone()]);
            }
        }
    }
    out
}

thread_local! {
    /// the schedule of the execution being judged (for oracles that need the order of lock acquisitions)
    pub static LAST_SCHEDULE: std::cell::RefCell<Vec<String>> = std::cell::RefCell::new(vec![]);
}

pub struct PairResult {
    pub executions: u64,
    pub points: u64,
    pub outcomes: usize,
    pub capped: bool,
}

/// explore one configuration of programs; returns stats, pushes violations
pub fn explore_programs(prop: &str, setup: &Setup, programs: &[Vec<String>], bound: usize, max_exec: u64, budget: Duration, extra: &(dyn Fn(&[OpRec], &FinalView, &[String]) -> Option<(String, String)> + Sync), check_lin: bool) -> (PairResult, Vec<Violation>) {
    let seq = sequential_outcomes(setup, programs);
    let mut outcomes: BTreeSet<Outcome> = BTreeSet::new();
    let mut found: Vec<Violation> = vec![];
    let shape_base = programs.iter().enumerate().map(|(i, p)| format!("T{}=[{}]", i, p.join(" ; "))).collect::<Vec<_>>().join(" ");
    let mut mk = || {
        let (mut w, mut sessions) = build(setup);
        let ctx = w.node.ctx.clone();
        w.spectators = sessions.split_off(programs.len().min(sessions.len()));
        let bodies: Vec<Box<dyn FnOnce(&std::sync::Arc<Sched>) -> (Vec<OpRec>, crate::world::Session) + Send>> =
            sessions.into_iter().enumerate().map(|(tid, s)| body(w.node.dbs.clone(), s, tid, programs[tid].clone())).collect();
        (w, ctx, bodies)
    };
    let mut seen_clause: BTreeSet<String> = BTreeSet::new();
    let mut check = |mut w: CWorld, x: &Execution<(Vec<OpRec>, crate::world::Session)>, choices: &[usize]| {
        let schedule: Vec<String> = x.points.iter().map(|p| p.what.clone()).collect();
        if let Some(d) = &x.deadlock {
            if seen_clause.insert("deadlock".into()) {
                found.push(Violation { clause: "deadlock".into(), shape: shape_base.clone(), detail: d.clone(), replay: json!({"engine":"ilv","property":prop,"programs":programs,"init":setup.init,"sessions":setup.session_init.len(),"syscall_points":crate::ilv::SYSCALL_POINTS.load(std::sync::atomic::Ordering::SeqCst),"choices":choices,"schedule":schedule}) });
            }
            return;
        }
        let mut ops: Vec<OpRec> = vec![];
        for r in x.results.iter() {
            match r {
                Some((v, _)) => ops.extend(v.iter().cloned()),
                None => {
                    if seen_clause.insert("thread-panic".into()) {
                        found.push(Violation { clause: "thread-panic".into(), shape: shape_base.clone(), detail: "a client thread panicked outside process_request".into(), replay: json!({"engine":"ilv","programs":programs,"init":setup.init,"sessions":setup.session_init.len(),"syscall_points":crate::ilv::SYSCALL_POINTS.load(std::sync::atomic::Ordering::SeqCst),"choices":choices}) });
                    }
                    w.node.remove_dir();
                    return;
                }
            }
        }
        let fin = final_view(&w.node, "t");
        let spectator_msgs: Vec<String> = w.spectators.iter_mut().flat_map(|s| s.drain()).collect();
        let stream = if setup.check_replica { w.node.drain_queues().0 } else { vec![] };
        w.node.remove_dir();
        if setup.check_replica && !ops.iter().any(|o| o.resp.starts_with("PANIC")) {
            // C19 promises the same *value* on every replica (a resolution bumps the version locally)
            let strip = |v: &FinalView| -> FinalView { if prop == "C19" { v.iter().map(|(k, x)| (k.clone(), (x.0.clone(), 0, x.2))).collect() } else { v.clone() } };
            let rep = strip(&replica_view(setup, &stream));
            let fin_cmp = strip(&fin);
            let fin = &fin_cmp;
            if rep != *fin {
                // canonical kind of difference: which of value / version / presence differs
                let mut kinds: BTreeSet<&str> = BTreeSet::new();
                for k in fin.keys().chain(rep.keys()) {
                    match (fin.get(k), rep.get(k)) {
                        (Some(a), Some(b)) => {
                            if a.0 != b.0 {
                                kinds.insert("value");
                            }
                            if a.1 != b.1 {
                                kinds.insert("version");
                            }
                        }
                        (Some(_), None) => {
                            kinds.insert("key-missing-on-replica");
                        }
                        (None, Some(_)) => {
                            kinds.insert("removed-key-live-on-replica");
                        }
                        (None, None) => {}
                    }
                }
                // Is the difference explained by the queue order alone?  If the same messages in
                // another order reproduce the primary, the commands were queued for replication in
                // another order than they were applied; otherwise something else is wrong.
                let mut attributable = false;
                if stream.len() <= 4 {
                    let mut idx: Vec<usize> = (0..stream.len()).collect();
                    let mut perms: Vec<Vec<usize>> = vec![];
                    fn heap(k: usize, a: &mut Vec<usize>, out: &mut Vec<Vec<usize>>) {
                        if k <= 1 {
                            out.push(a.clone());
                            return;
                        }
                        for i in 0..k {
                            heap(k - 1, a, out);
                            if k % 2 == 0 {
                                a.swap(i, k - 1);
                            } else {
                                a.swap(0, k - 1);
                            }
                        }
                    }
                    let n = idx.len();
                    heap(n, &mut idx, &mut perms);
                    for p in perms {
                        if p.iter().enumerate().all(|(i, x)| i == *x) {
                            continue;
                        }
                        let alt: Vec<String> = p.iter().map(|i| stream[*i].clone()).collect();
                        if strip(&replica_view(setup, &alt)) == *fin {
                            attributable = true;
                            break;
                        }
                    }
                }
                let clause = if attributable { "replication-queue-order-differs-from-apply-order".to_string() } else { format!("replica-differs-from-primary: {}", kinds.into_iter().collect::<Vec<_>>().join("+")) };
                // C19 is stated for writes applied in the primary's order
                if !(attributable && prop == "C19" && std::env::var("NUNMC_C19_STRICT").is_err()) && seen_clause.insert(clause.clone()) {
                    found.push(Violation { clause, shape: shape_base.clone(), detail: format!("primary {:?}; a replica fed the primary's replication queue in order {:?} ends with {:?}; schedule {:?}", fin, stream, rep, schedule), replay: json!({"engine":"ilv","property":prop,"programs":programs,"init":setup.init,"sessions":setup.session_init.len(),"syscall_points":crate::ilv::SYSCALL_POINTS.load(std::sync::atomic::Ordering::SeqCst),"choices":choices,"schedule":schedule}) });
                }
            }
        }
        let oc = Outcome { replies: ops.iter().map(|o| ((o.tid, o.idx), (o.resp.clone(), o.msgs.clone()))).collect(), fin: fin.clone() };
        outcomes.insert(oc);
        if ops.iter().any(|o| o.resp.starts_with("PANIC")) {
            if seen_clause.insert("handler-panic".into()) {
                found.push(Violation { clause: "handler-panic".into(), shape: shape_base.clone(), detail: format!("{:?}", ops), replay: json!({"engine":"ilv","programs":programs,"init":setup.init,"sessions":setup.session_init.len(),"syscall_points":crate::ilv::SYSCALL_POINTS.load(std::sync::atomic::Ordering::SeqCst),"choices":choices,"schedule":schedule}) });
            }
            return;
        }
        LAST_SCHEDULE.with(|l| *l.borrow_mut() = schedule.clone());
        if let Some((clause, detail)) = extra(&ops, &fin, &spectator_msgs) {
            if seen_clause.insert(clause.clone()) {
                found.push(Violation { clause, shape: shape_base.clone(), detail, replay: json!({"engine":"ilv","property":prop,"programs":programs,"init":setup.init,"sessions":setup.session_init.len(),"syscall_points":crate::ilv::SYSCALL_POINTS.load(std::sync::atomic::Ordering::SeqCst),"choices":choices,"schedule":schedule}) });
            }
        }
        if check_lin && !linearizable(&seq, &ops, &fin) {
            if seen_clause.insert("not-linearizable".into()) {
                let replies: Vec<String> = ops.iter().map(|o| format!("t{}#{} `{}` -> {} {:?} [{}..{}]", o.tid, o.idx, o.line, o.resp, o.msgs, o.call, o.ret)).collect();
                found.push(Violation {
                    clause: "not-linearizable".into(),
                    shape: shape_base.clone(),
                    detail: format!("no sequential order of the same commands gives these replies and final state: {:?} final {:?}; schedule {:?}", replies, fin, schedule),
                    replay: json!({"engine":"ilv","property":prop,"programs":programs,"init":setup.init,"sessions":setup.session_init.len(),"syscall_points":crate::ilv::SYSCALL_POINTS.load(std::sync::atomic::Ordering::SeqCst),"choices":choices,"schedule":schedule}),
                });
            }
        }
    };
    let st = match explore(bound, max_exec, budget, &mut mk, &mut check) {
        Ok(s) => s,
        Err(RunError::Hang(m)) => {
            eprintln!("machinery: ILV {}: {}", shape_base, m);
            std::process::exit(2);
        }
    };
    (PairResult { executions: st.executions, points: st.points, outcomes: outcomes.len().max(distinct_outcomes(&seq).min(outcomes.len())), capped: st.capped.is_some() }, found)
}

pub struct Config {
    pub linearizable: bool,
    pub programs: Vec<Vec<String>>,
    pub bound: usize,
    pub max_exec: u64,
    pub budget: Duration,
}

/// run independent configurations on worker threads (each exploration itself is sequential)
pub fn run_configs(run: &mut Run, prop: &str, setup: &Setup, configs: &[Config], extra: &(dyn Fn(&[OpRec], &FinalView, &[String]) -> Option<(String, String)> + Sync)) -> (u64, u64, u64, usize) {
    let idx = std::sync::atomic::AtomicUsize::new(0);
    // configurations not started before the deadline are skipped and reported as such
    let deadline = std::time::Instant::now() + Duration::from_secs(if run.quick() { 120 } else { 2400 });
    let skipped = std::sync::atomic::AtomicUsize::new(0);
    let results: std::sync::Mutex<Vec<(PairResult, Vec<Violation>)>> = std::sync::Mutex::new(vec![]);
    let workers = match crate::util::workers() {
        0 => std::thread::available_parallelism().map(|n| n.get()).unwrap_or(4),
        n => n,
    };
    std::thread::scope(|s| {
        for _ in 0..workers.min(configs.len()).max(1) {
            s.spawn(|| loop {
                let i = idx.fetch_add(1, std::sync::atomic::Ordering::SeqCst);
                if i >= configs.len() {
                    break;
                }
                if std::time::Instant::now() > deadline {
                    skipped.fetch_add(1, std::sync::atomic::Ordering::SeqCst);
                    continue;
                }
                let c = &configs[i];
                let r = explore_programs(prop, setup, &c.programs, c.bound, c.max_exec, c.budget, extra, c.linearizable);
                results.lock().unwrap().push(r);
            });
        }
    });
    let (mut ex, mut pts, mut capped, mut maxo) = (0, 0, 0, 0);
    let sk = skipped.load(std::sync::atomic::Ordering::SeqCst) as u64;
    run.cov_add("ilv_configs_skipped_by_deadline", sk);
    capped += sk;
    for (r, vs) in results.into_inner().unwrap() {
        ex += r.executions;
        pts += r.points;
        capped += r.capped as u64;
        maxo = maxo.max(r.outcomes);
        for v in vs {
            run.violate(v);
        }
    }
    (ex, pts, capped, maxo)
}

pub fn setup_c02(nsess: usize) -> Setup {
    Setup { strategy: "none", init: vec!["set k 1".into(), "set k 1".into()], session_init: (0..nsess).map(|_| vec!["use-db t tok".to_string()]).collect(), check_replica: false }
}

/// base version the clients present = the version published before they start
pub fn base_version(setup: &Setup) -> i32 {
    let (w, _s) = build(setup);
    let v = final_view(&w.node, "t").get("k").map(|x| x.1).unwrap_or(1);
    w.node.remove_dir();
    v
}

fn c02_extra(base: i32) -> impl Fn(&[OpRec], &FinalView, &[String]) -> Option<(String, String)> {
    move |ops: &[OpRec], fin: &FinalView, _spectators: &[String]| {
        // two writers presenting the same base version never both succeed
        let same_base: Vec<&OpRec> = ops.iter().filter(|o| o.line.starts_with(&format!("set-safe k {} ", base)) && o.resp == "Ok").collect();
        let first_writes: Vec<&&OpRec> = same_base.iter().filter(|o| o.idx == 0).collect();
        // (a remove in between makes the key absent, and a versioned write to an absent key
        // always succeeds: the clause is about a key that exists throughout)
        let removed = ops.iter().any(|o| o.line == "remove k" && o.resp == "Ok");
        if first_writes.len() >= 2 && !removed {
            // both were issued against the published base (first command of their thread)
            return Some(("same-base-writers-both-succeeded".into(), format!("{:?}", first_writes.iter().map(|o| format!("t{} `{}` -> {}", o.tid, o.line, o.resp)).collect::<Vec<_>>())));
        }
        // no acknowledged increment is lost when only increments (and reads) ran
        if ops.iter().all(|o| o.line == "increment k" || o.line == "get-safe k") {
            let acks = ops.iter().filter(|o| o.line == "increment k" && o.resp == "Ok").count() as i64;
            let got = fin.get("k").and_then(|v| v.0.parse::<i64>().ok()).unwrap_or(-999);
            if got != 1 + acks {
                return Some(("lost-increment".into(), format!("{} acknowledged increments from 1, final value {}", acks, got)));
            }
        }
        None
    }
}

pub fn run(run: &mut Run) {
    let quick = run.quick();
    let setup = setup_c02(3);
    let base = base_version(&setup);
    let extra = c02_extra(base);
    let mut configs: Vec<Config> = vec![];
    // (a) every pair of single commands: unbounded preemptions (thorough) / bound 2 (quick)
    let p0 = programs_upto(0, base, 1, false);
    let p1 = programs_upto(1, base, 1, false);
    let b1 = if quick { 3 } else { 99 };
    for a in p0.iter() {
        for b in p1.iter() {
            configs.push(Config { linearizable: true, programs: vec![a.clone(), b.clone()], bound: b1, max_exec: 300_000, budget: Duration::from_secs(if quick { 10 } else { 300 }) });
        }
    }
    // the same on a key that does not exist yet (never set): creation is the racy step
    let absent = |t: usize| -> Vec<String> { vec![format!("set-safe j 0 a{}", t), format!("set j {}", 20 + t), "increment j".to_string(), format!("set-safe j 5 b{}", t)] };
    for a in absent(0).iter() {
        for b in absent(1).iter() {
            configs.push(Config { linearizable: true, programs: vec![vec![a.clone()], vec![b.clone()]], bound: b1, max_exec: 300_000, budget: Duration::from_secs(if quick { 10 } else { 300 }) });
        }
    }
    let n1 = configs.len();
    // (b) 2 clients x up to 2 commands, preemption bound
    let b2 = if quick { 2 } else { 3 };
    let q0 = programs_upto(0, base, 2, quick);
    let q1 = programs_upto(1, base, 2, quick);
    for a in q0.iter() {
        for b in q1.iter() {
            if a.len() + b.len() < 3 {
                continue;
            }
            configs.push(Config { linearizable: true, programs: vec![a.clone(), b.clone()], bound: b2, max_exec: 200_000, budget: Duration::from_secs(if quick { 8 } else { 240 }) });
        }
    }
    let n2 = configs.len() - n1;
    // (c) 3 clients x 1 command
    let b3 = if quick { 1 } else { 3 };
    let m3: Vec<Vec<String>> = (0..3).map(|t| menu(t, base, quick)).collect();
    for a in m3[0].iter() {
        for b in m3[1].iter() {
            for c in m3[2].iter() {
                configs.push(Config { linearizable: true, programs: vec![vec![a.clone()], vec![b.clone()], vec![c.clone()]], bound: b3, max_exec: 200_000, budget: Duration::from_secs(if quick { 8 } else { 240 }) });
            }
        }
    }
    let n3 = configs.len() - n1 - n2;
    let (ex, pts, capped, maxo) = run_configs(run, "C02", &setup, &configs, &extra);
    // (e) the same pairs on a key that a completed snapshot has persisted (its record, state and tombstone
    // handling differ from a key that only lives in memory), incl. a stale versioned write racing a remove
    let (ex, pts, capped) = {
        let setup_p = Setup { strategy: "none", init: vec!["set k 1".into(), "set k 1".into(), "snapshot false t".into(), RUN_SNAPSHOT.into()], session_init: (0..2).map(|_| vec!["use-db t tok".to_string()]).collect(), check_replica: false };
        let bp = base_version(&setup_p);
        let left = vec!["remove k".to_string(), "set k 10".to_string(), "increment k".to_string(), format!("set-safe k {} s0", bp)];
        let right = vec![format!("set-safe k {} stale", bp - 1), format!("set-safe k {} s1", bp), "remove k".to_string(), "increment k".to_string(), "set k 11".to_string()];
        let mut cs: Vec<Config> = vec![];
        for a in left.iter() {
            for b in right.iter() {
                cs.push(Config { linearizable: true, programs: vec![vec![a.clone()], vec![b.clone()]], bound: if quick { 2 } else { 99 }, max_exec: 200_000, budget: Duration::from_secs(if quick { 8 } else { 120 }) });
            }
        }
        let extra_p = c02_extra(bp);
        let (e, p, c, _m) = run_configs(run, "C02", &setup_p, &cs, &extra_p);
        run.cov("ilv_2x1_on_a_persisted_key", json!({"configs": cs.len(), "preemption_bound": if quick { 2 } else { 99 }}));
        (ex + e, pts + p, capped + c)
    };
    // (d) the snapshot (carried out by the declutter timer's thread) racing one client: an acknowledged write
    // must not be lost to what the snapshot captured before it. File writes are scheduling points here.
    let (ex, pts, capped) = {
        crate::ilv::SYSCALL_POINTS.store(true, std::sync::atomic::Ordering::SeqCst);
        let mut totals = (ex, pts, capped);
        let inits: Vec<(&str, Vec<String>)> = vec![
            ("key never persisted", vec!["set k 1".into(), "set k 1".into(), "snapshot false t".into()]),
            ("key persisted, changed since", vec!["set k 1".into(), "snapshot false t".into(), RUN_SNAPSHOT.into(), "set k 1".into(), "snapshot false t".into()]),
        ];
        let mut n4 = 0;
        for (_name, init) in inits.iter() {
            let setup_s = Setup { strategy: "none", init: init.clone(), session_init: (0..2).map(|_| vec!["use-db t tok".to_string()]).collect(), check_replica: false };
            // what the snapshot captures: the key as it is when the threads start
            let captured = {
                let (w0, _s) = build(&setup_s);
                let c = final_view(&w0.node, "t").get("k").cloned();
                w0.node.remove_dir();
                c
            };
            for w in ["set k 10".to_string(), "increment k".to_string(), "remove k".to_string(), format!("set-safe k {} s0", base)] {
                let programs = vec![vec![RUN_SNAPSHOT.to_string()], vec![w]];
                let seq = sequential_outcomes(&setup_s, &programs);
                let captured = captured.clone();
                // one named clause for the outcome the pinned tree shows (a listed finding), linearizability for everything else
                let judge = move |ops: &[OpRec], fin: &FinalView, _: &[String]| -> Option<(String, String)> {
                    let acked = ops.iter().any(|o| o.tid == 1 && o.resp == "Ok");
                    let describe = || format!("{:?} final k = {:?}, the snapshot had captured {:?}", ops.iter().map(|o| format!("t{} `{}` -> {}", o.tid, o.line, o.resp)).collect::<Vec<_>>(), fin.get("k"), captured);
                    if acked && fin.get("k") == captured.as_ref() && captured.is_some() {
                        return Some(("acknowledged-write-lost-to-a-concurrent-snapshot".into(), describe()));
                    }
                    if !linearizable(&seq, ops, fin) {
                        return Some(("not-linearizable".into(), format!("no sequential order of the snapshot and the command gives this: {}", describe())));
                    }
                    None
                };
                n4 += 1;
                let (r, vs) = explore_programs("C02", &setup_s, &programs, if quick { 2 } else { 4 }, 100_000, Duration::from_secs(if quick { 10 } else { 60 }), &judge, false);
                totals = (totals.0 + r.executions, totals.1 + r.points, totals.2 + r.capped as u64);
                for v in vs {
                    run.violate(v);
                }
            }
        }
        crate::ilv::SYSCALL_POINTS.store(false, std::sync::atomic::Ordering::SeqCst);
        run.cov("ilv_snapshot_vs_writer", json!({"configs": n4, "preemption_bound": if quick { 2 } else { 4 }, "scheduling_points": "lock acquisitions + file writes"}));
        totals
    };
    run.cov("ilv_2x1", json!({"configs": n1, "preemption_bound": b1}));
    run.cov("ilv_2x2", json!({"configs": n2, "preemption_bound": b2}));
    run.cov("ilv_3x1", json!({"configs": n3, "preemption_bound": b3}));
    run.cov_add("ilv_executions", ex);
    run.cov_add("ilv_scheduling_points", pts);
    run.cov_add("states", ex);
    run.cov_add("transitions", pts);
    run.cov_add("traces_validated_against_impl", ex);
    run.cov("ilv_configs_capped", json!(capped));
    run.cov("ilv_max_distinct_outcomes_per_config", json!(maxo));
    run.sample(json!({"ilv_programs": [p0[0], p1[0]], "base_version": base}));
    run.assume("scheduling points = every acquisition of a shim RwLock (Database.map, Watchers.map, connections, to_snapshot, SelectedDatabase) plus the apply->replicate yield point; no unsafe code in the crate, so lock granularity covers all shared-memory races");
    run.assume("linearizability reference = the implementation itself run sequentially in every merge order of the programs; compared on replies and on the client-visible final state (live keys, values, versions)");
}

/// `./check replay <file>` for an ILV counterexample of C02 / C04 / C19: the recorded choice
/// sequence is executed once more on a fresh world; the schedule, every reply, the final state and
/// (where the check uses one) the replica's state are printed.  Run twice to see the same output.
pub fn replay_ilv(prop: &str, programs: &[Vec<String>], choices: &[usize], init: Option<Vec<String>>, sessions: usize, syscall_points: bool) -> i32 {
    crate::ilv::SYSCALL_POINTS.store(syscall_points, std::sync::atomic::Ordering::SeqCst);
    let mut setup = match prop {
        "C02" => setup_c02(3),
        "C04" => Setup { strategy: "none", init: vec!["set k 1".into(), "set k 1".into(), "set c 5".into()], session_init: (0..2).map(|_| vec!["use-db t tok".to_string()]).collect(), check_replica: true },
        "C19" => Setup { strategy: "newer", init: vec!["set k 1".into(), "set k 1".into()], session_init: vec![vec!["use-db t tok".to_string()], vec!["use-db t tok".to_string()], vec!["use-db t tok".to_string(), "watch k".to_string()]], check_replica: true },
        _ => {
            eprintln!("no ILV replayer for {}", prop);
            return 2;
        }
    };
    // files written since session 4 carry the set-up the threads started from
    if let Some(i) = init {
        setup.init = i;
        if sessions > 0 && prop == "C02" {
            setup.session_init = (0..sessions).map(|_| vec!["use-db t tok".to_string()]).collect();
        }
    }
    let mut outputs = vec![];
    for round in 0..2 {
        let (mut w, mut sessions) = build(&setup);
        let ctx = w.node.ctx.clone();
        w.spectators = sessions.split_off(programs.len().min(sessions.len()));
        let bodies: Vec<Box<dyn FnOnce(&std::sync::Arc<Sched>) -> (Vec<OpRec>, crate::world::Session) + Send>> = sessions.into_iter().enumerate().map(|(tid, s)| body(w.node.dbs.clone(), s, tid, programs[tid].clone())).collect();
        let x = match run_once(&ctx, bodies, choices) {
            Ok(x) => x,
            Err(RunError::Hang(m)) => {
                eprintln!("machinery: {}", m);
                return 2;
            }
        };
        let mut out = String::new();
        if let Some(d) = &x.diverged {
            eprintln!("machinery: {}", d);
            return 2;
        }
        out.push_str(&format!("schedule: {:?}\n", x.points.iter().map(|p| p.what.clone()).collect::<Vec<_>>()));
        if let Some(d) = &x.deadlock {
            out.push_str(&format!("DEADLOCK: {}\n", d));
        }
        for r in x.results.iter().flatten() {
            for o in r.0.iter() {
                out.push_str(&format!("  t{}#{} `{}` -> {} {:?} [{}..{}]\n", o.tid, o.idx, o.line, o.resp, o.msgs, o.call, o.ret));
            }
        }
        let fin = final_view(&w.node, "t");
        out.push_str(&format!("final state: {:?}\n", fin));
        let watcher: Vec<String> = w.spectators.iter_mut().flat_map(|s| s.drain()).collect();
        if !watcher.is_empty() {
            out.push_str(&format!("watcher stream: {:?}\n", watcher));
        }
        if setup.check_replica {
            let stream = w.node.drain_queues().0;
            out.push_str(&format!("replication queue: {:?}\nreplica: {:?}\n", stream, replica_view(&setup, &stream)));
        }
        w.node.remove_dir();
        if round == 0 {
            print!("{}", out);
        }
        outputs.push(out);
    }
    if outputs[0] != outputs[1] {
        eprintln!("machinery: the same choice sequence gave two different executions");
        return 2;
    }
    println!("(replayed twice: identical)");
    0
}
