//! C17 — $connections equals the number of open sessions on the database.
//! SEQ over connect / use-db / disconnect events of 3 sessions x 2 databases (in-process sessions,
//! which run exactly the code every transport runs at connection end), ILV for 2 sessions.
use super::conc::*;
use crate::ilv::*;
use crate::report::{Run, Violation};
use crate::seq::*;
use crate::world::*;
use serde_json::json;
use std::collections::BTreeMap;
use std::time::Duration;

#[derive(Clone, Debug)]
enum L {
    Connect(usize),
    UseT(usize),
    UseU(usize),
    UseWrong(usize),
    UseUser(usize),
    UseUserWrong(usize),
    UseGhost(usize),
    Disconnect(usize),
}

pub struct W {
    node: Node,
    sessions: Vec<Option<Session>>,
    /// reference: which database each open session currently selects
    sel: Vec<Option<String>>,
    watcher: Session,
}

pub struct C17 {
    letters: Vec<L>,
}

fn v(clause: &str, detail: String) -> Vec<StepViolation> {
    vec![StepViolation { clause: clause.to_string(), detail, shape: None, soft: false }]
}

fn counter_key(node: &Node, db: &str) -> Option<String> {
    with_db(&node.dbs, db, |d| dump_db(d).get("$connections").map(|k| k.value.clone())).flatten()
}

fn counter_field(node: &Node, db: &str) -> usize {
    with_db(&node.dbs, db, |d| d.connections_count()).unwrap_or(0)
}

impl SeqModel for C17 {
    type World = W;
    fn letters(&self) -> Vec<String> {
        self.letters.iter().map(|l| format!("{:?}", l)).collect()
    }
    fn new_world(&self) -> W {
        let node = Node::new_single("c17");
        let mut admin = Session::new();
        admin.exec(&node, &format!("auth {} {}", USER, PWD));
        admin.exec(&node, "create-db t tok none");
        admin.exec(&node, "create-db u tok2 none");
        admin.exec(&node, "use-db t tok");
        admin.exec(&node, "create-user bob bt");
        let _ = admin.disconnect(&node);
        // a watcher of $connections on t: one constant session
        let mut watcher = Session::new();
        watcher.exec(&node, "use-db t tok");
        watcher.exec(&node, "watch $connections");
        let mut w = W { node, sessions: vec![None, None, None], sel: vec![None, None, None], watcher };
        w.node.drain_queues();
        w.watcher.drain();
        w
    }
    fn drop_world(&self, w: W) {
        w.node.remove_dir()
    }
    fn key(&self, w: &W) -> String {
        let open: Vec<bool> = w.sessions.iter().map(|s| s.is_some()).collect();
        let sels: Vec<(Option<String>, Option<String>)> = w.sessions.iter().map(|s| s.as_ref().map(|s| (s.client.selected_db_name(), s.client.selected_db_user_name())).unwrap_or((None, None))).collect();
        format!("{:?}|{:?}|{:?}|t={:?}/{} u={:?}/{}", open, w.sel, sels, counter_key(&w.node, "t"), counter_field(&w.node, "t"), counter_key(&w.node, "u"), counter_field(&w.node, "u"))
    }
    fn enabled(&self, w: &W, letter: usize) -> bool {
        match &self.letters[letter] {
            L::Connect(i) => w.sessions[*i].is_none(),
            L::UseT(i) | L::UseU(i) | L::UseWrong(i) | L::UseUser(i) | L::UseUserWrong(i) | L::UseGhost(i) | L::Disconnect(i) => w.sessions[*i].is_some(),
        }
    }
    fn step(&self, w: &mut W, letter: usize) -> Vec<StepViolation> {
        w.node.ctx.install();
        let l = self.letters[letter].clone();
        let before_t = w.sel.iter().filter(|s| s.as_deref() == Some("t")).count() + 1;
        match &l {
            L::Connect(i) => {
                w.sessions[*i] = Some(Session::new());
                w.sel[*i] = None;
            }
            L::UseT(i) | L::UseU(i) | L::UseWrong(i) | L::UseUser(i) | L::UseUserWrong(i) | L::UseGhost(i) => {
                let (line, ok, db) = match &l {
                    L::UseUserWrong(_) => ("use-db t bob nope", false, "t"),
                    L::UseGhost(_) => ("use-db u ghost x", false, "u"),
                    L::UseT(_) => ("use-db t tok", true, "t"),
                    L::UseU(_) => ("use-db u tok2", true, "u"),
                    L::UseWrong(_) => ("use-db t nope", false, "t"),
                    _ => ("use-db t bob bt", true, "t"),
                };
                let o = w.sessions[*i].as_mut().unwrap().exec(&w.node, line);
                if o.panic.is_some() {
                    return v("panic", format!("{:?}: {:?}", l, o));
                }
                if ok != (o.resp == "Ok") {
                    return v("reply-mismatch", format!("{:?}: {:?}", l, o));
                }
                if ok {
                    w.sel[*i] = Some(db.to_string());
                }
            }
            L::Disconnect(i) => {
                let mut s = w.sessions[*i].take().unwrap();
                let o = s.disconnect(&w.node);
                w.sel[*i] = None;
                if o.panic.is_some() {
                    return v("disconnect-failed", format!("{:?}: {:?} at {:?}", l, o, take_panic_loc()));
                }
            }
        }
        w.node.drain_queues();
        for (db, extra) in [("t", 1usize), ("u", 0usize)] {
            let want = w.sel.iter().filter(|s| s.as_deref() == Some(db)).count() + extra;
            let key = counter_key(&w.node, db);
            let field = counter_field(&w.node, db);
            // the key does not exist before the first selection of a database
            let key_n = key.as_ref().and_then(|k| k.parse::<usize>().ok()).unwrap_or(0);
            if key_n != want || field != want {
                return v(
                    "connection-count-wrong",
                    format!("after {:?}: {} open session(s) select {}, but $connections={:?} (internal counter {})", l, want, db, key, field),
                );
            }
        }
        // the watcher of t's counter sees the change
        let msgs = w.watcher.drain();
        let after_t = w.sel.iter().filter(|s| s.as_deref() == Some("t")).count() + 1;
        let last = msgs.iter().rev().find(|m| m.starts_with("changed $connections ")).cloned();
        if after_t != before_t {
            if last != Some(format!("changed $connections {}\n", after_t)) {
                return v("watcher-missed-change", format!("after {:?}: count {} -> {} but the watcher got {:?}", l, before_t, after_t, msgs));
            }
        } else if let Some(m) = last {
            if m != format!("changed $connections {}\n", after_t) {
                return v("watcher-saw-wrong-count", format!("after {:?}: count stays {} but the watcher got {:?}", l, after_t, msgs));
            }
        }
        vec![]
    }
}

fn ilv_part(run: &mut Run, quick: bool) {
    // two sessions selecting / leaving concurrently; the key must end equal to the number of
    // sessions still open and selecting
    let s = |v: &[&str]| v.iter().map(|x| x.to_string()).collect::<Vec<String>>();
    let progs: Vec<Vec<Vec<String>>> = vec![
        vec![s(&["use-db t tok"]), s(&["use-db t tok"])],
        vec![s(&["use-db t tok", "<disconnect>"]), s(&["use-db t tok"])],
        vec![s(&["use-db t tok", "<disconnect>"]), s(&["use-db t tok", "<disconnect>"])],
        vec![s(&["use-db t tok", "use-db u tok2"]), s(&["use-db t tok"])],
    ];
    let setup = Setup { strategy: "none", init: vec!["create-db u tok2".to_string()], session_init: vec![vec![], vec![]], check_replica: false };
    let bound = if quick { 2 } else { 3 };
    let mut execs = 0u64;
    let mut pts = 0u64;
    let mut capped = 0u64;
    for p in progs.iter() {
        let shape = format!("ilv {}", p.iter().enumerate().map(|(i, x)| format!("S{}=[{}]", i, x.join(" ; "))).collect::<Vec<_>>().join(" "));
        let mut found: Vec<Violation> = vec![];
        let mut mk = || {
            let (w, sessions) = build(&setup);
            let ctx = w.node.ctx.clone();
            let bodies: Vec<Box<dyn FnOnce(&std::sync::Arc<Sched>) -> (Vec<OpRec>, Session) + Send>> = sessions.into_iter().enumerate().map(|(tid, s)| body_d(w.node.dbs.clone(), s, tid, p[tid].clone())).collect();
            (w, ctx, bodies)
        };
        let mut check = |w: CWorld, x: &Execution<(Vec<OpRec>, Session)>, choices: &[usize]| {
            let schedule: Vec<String> = x.points.iter().map(|p| p.what.clone()).collect();
            if let Some(d) = &x.deadlock {
                if found.is_empty() {
                    found.push(Violation { clause: "deadlock".into(), shape: shape.clone(), detail: d.clone(), replay: json!({"engine":"ilv","programs":p,"choices":choices}) });
                }
                return;
            }
            let ops: Vec<OpRec> = x.results.iter().flatten().flat_map(|(v, _)| v.iter().cloned()).collect();
            let panicked = ops.iter().any(|o| o.resp.starts_with("PANIC")) || x.results.iter().any(|r| r.is_none());
            // admin selected t in build(): +1
            let mut want: BTreeMap<&str, usize> = BTreeMap::new();
            want.insert("t", 1);
            want.insert("u", 0);
            for prog in p.iter() {
                let mut cur: Option<&str> = None;
                for l in prog {
                    if l == "use-db t tok" {
                        cur = Some("t")
                    } else if l == "use-db u tok2" {
                        cur = Some("u")
                    } else if l == "<disconnect>" {
                        cur = None
                    }
                }
                if let Some(c) = cur {
                    *want.get_mut(c).unwrap() += 1;
                }
            }
            for db in ["t", "u"] {
                let key = counter_key(&w.node, db).and_then(|k| k.parse::<usize>().ok()).unwrap_or(0);
                if (key != want[db] || panicked) && found.is_empty() {
                    found.push(Violation {
                        clause: if panicked { "disconnect-failed".into() } else { "connection-count-wrong".into() },
                        shape: shape.clone(),
                        detail: format!("{} session(s) still select {} at the end but $connections={} (ops {:?}); schedule {:?}", want[db], db, key, ops.iter().map(|o| format!("s{} `{}`->{}", o.tid, o.line, o.resp)).collect::<Vec<_>>(), schedule),
                        replay: json!({"engine":"ilv","property":"C17","programs":p,"choices":choices,"schedule":schedule}),
                    });
                }
            }
            w.node.remove_dir();
        };
        match crate::ilv::explore(bound, 200_000, Duration::from_secs(if quick { 15 } else { 300 }), &mut mk, &mut check) {
            Ok(st) => {
                execs += st.executions;
                pts += st.points;
                capped += st.capped.is_some() as u64;
            }
            Err(RunError::Hang(m)) => {
                eprintln!("machinery: ILV {}: {}", shape, m);
                std::process::exit(2);
            }
        }
        for f in found {
            run.violate(f);
        }
    }
    run.cov_add("ilv_executions", execs);
    run.cov_add("ilv_scheduling_points", pts);
    run.cov_add("states", execs);
    run.cov_add("transitions", pts);
    run.cov("ilv_preemption_bound", json!(bound));
    run.cov("ilv_configs_capped", json!(capped));
}

fn body_d(dbs: std::sync::Arc<nundb::bo::Databases>, mut sess: Session, tid: usize, program: Vec<String>) -> Box<dyn FnOnce(&std::sync::Arc<Sched>) -> (Vec<OpRec>, Session) + Send> {
    Box::new(move |sched: &std::sync::Arc<Sched>| {
        let mut out = vec![];
        for (idx, line) in program.iter().enumerate() {
            let call = sched.seq.fetch_add(1, std::sync::atomic::Ordering::SeqCst);
            let c = &mut sess.client;
            let r = std::panic::catch_unwind(std::panic::AssertUnwindSafe(|| {
                if line == "<disconnect>" {
                    let r = nundb::process_request::process_request("unwatch-all", &dbs, c);
                    c.left(&dbs);
                    r
                } else {
                    nundb::process_request::process_request(line, &dbs, c)
                }
            }));
            let ret = sched.seq.fetch_add(1, std::sync::atomic::Ordering::SeqCst);
            let resp = match r {
                Ok(r) => resp_str(&r),
                Err(e) => format!("PANIC({})", panic_msg(&e)),
            };
            let msgs = sess.drain();
            out.push(OpRec { tid, idx, line: line.clone(), resp, msgs, call, ret, ticks: crate::ilv::take_ticks() });
        }
        (out, sess)
    })
}

pub fn run(run: &mut Run) {
    let quick = run.quick();
    let mut letters = vec![];
    for i in 0..3 {
        letters.push(L::Connect(i));
        letters.push(L::UseT(i));
        letters.push(L::UseU(i));
        letters.push(L::UseWrong(i));
        letters.push(L::UseUser(i));
        letters.push(L::UseUserWrong(i));
        letters.push(L::UseGhost(i));
        letters.push(L::Disconnect(i));
    }
    let m = C17 { letters };
    let cfg = SeqConfig { max_depth: if quick { 6 } else { 8 }, workers: crate::util::workers(), max_states: 3_000_000, budget: Duration::from_secs(if quick { 30 } else { 900 }) };
    let res = explore_seq(&m, &cfg);
    super::seq_report(run, &m, &res, &cfg);
    let ex = run.coverage.get("exhaustive").and_then(|v| v.as_bool()).unwrap_or(false);
    ilv_part(run, quick);
    let capped = run.coverage.get("ilv_configs_capped").and_then(|v| v.as_u64()).unwrap_or(0);
    run.cov("exhaustive", json!(ex && capped == 0));
    transports(run);
    run.assume("in-process sessions run the same unwatch-all + Client::left pair that the TCP, HTTP and WebSocket handlers run at connection end; the real TCP server (half-close) and the real HTTP server (request end) are driven with every connect/use-db sequence of up to 3 selections; WebSocket close is not driven (no client in the harness)");
    run.assume("a constant watcher session on t is counted in the expected value");
}

use crate::seq::explore as explore_seq;


/// the real TCP, HTTP and WebSocket servers: every sequence of up to 3 use-db commands, then the transport's
/// own end-of-connection path; $connections must be back where it was
fn transports(run: &mut Run) {
    let node = Node::new_single("c17-net");
    let mut admin = Session::new();
    admin.exec(&node, &format!("auth {} {}", USER, PWD));
    admin.exec(&node, "create-db t tok none");
    admin.exec(&node, "create-db u tok2 none");
    admin.exec(&node, "use-db t tok");
    admin.exec(&node, "create-user bob bt");
    let _ = admin.disconnect(&node);
    crate::world::set_fallback_ctx(Some(node.ctx.clone()));
    let tcp = crate::tcp::TcpServer::start(node.dbs.clone());
    let http = crate::http::HttpServer::start(node.dbs.clone());
    let ws = crate::ws::WsServer::start(node.dbs.clone());
    let cmds = ["use-db t tok", "use-db u tok2", "use-db t nope", "use-db t bob bt", "use-db t bob nope"];
    let mut seqs: Vec<Vec<&str>> = vec![vec![]];
    for len in 1..=3 {
        let mut idx = vec![0usize; len];
        loop {
            seqs.push(idx.iter().map(|i| cmds[*i]).collect());
            let mut p = len;
            while p > 0 {
                p -= 1;
                idx[p] += 1;
                if idx[p] < cmds.len() {
                    break;
                }
                idx[p] = 0;
                if p == 0 {
                    p = usize::MAX;
                    break;
                }
            }
            if p == usize::MAX {
                break;
            }
        }
    }
    let count = |db: &str| (counter_key(&node, db).and_then(|k| k.parse::<i64>().ok()).unwrap_or(0), counter_field(&node, db) as i64);
    // wait until both databases read `want`, twice in a row 20 ms apart (key and counter field are two reads;
    // a handler thread that is still working would be caught between them); gives up after 10 s
    let settle = |want: ((i64, i64), (i64, i64))| -> ((i64, i64), (i64, i64)) {
        let t0 = std::time::Instant::now();
        loop {
            let a = (count("t"), count("u"));
            if a == want {
                std::thread::sleep(std::time::Duration::from_millis(20));
                let b = (count("t"), count("u"));
                if b == want {
                    return b;
                }
            }
            if t0.elapsed() > std::time::Duration::from_secs(10) {
                return a;
            }
            std::thread::sleep(std::time::Duration::from_millis(5));
        }
    };
    let mut n = 0u64;
    let mut never_counted = 0u64;
    for sq in seqs.iter() {
        for transport in ["tcp", "http", "websocket"] {
            n += 1;
            let before = (count("t"), count("u"));
            let mid;
            if transport == "tcp" {
                let mut c = tcp.connect();
                for l in sq.iter() {
                    c.cmd(l);
                }
                mid = (count("t"), count("u"));
                if !c.close_and_wait() {
                    run.violate(Violation { clause: "disconnect-failed".into(), shape: format!("{}: {}", transport, sq.join(" ; ")), detail: "the server did not finish its end-of-connection path".into(), replay: json!({"engine":"transport","transport":transport,"commands":sq}) });
                    continue;
                }
            } else if transport == "websocket" {
                // one frame per command, then the closing handshake (on_close releases the session)
                let mut c = match ws.connect() {
                    Ok(c) => c,
                    Err(e) => {
                        run.violate(Violation { clause: "disconnect-failed".into(), shape: format!("{}: {}", transport, sq.join(" ; ")), detail: format!("cannot connect: {}", e), replay: json!({"engine":"transport","transport":transport,"commands":sq}) });
                        continue;
                    }
                };
                let frames: Vec<String> = sq.iter().map(|l| l.to_string()).collect();
                let answered = c.frames_until_marker(&frames).is_some();
                mid = (count("t"), count("u"));
                if !answered || !c.close_and_wait() {
                    run.violate(Violation { clause: "disconnect-failed".into(), shape: format!("{}: {}", transport, sq.join(" ; ")), detail: "the WebSocket server did not answer or did not finish the closing handshake".into(), replay: json!({"engine":"transport","transport":transport,"commands":sq}) });
                    continue;
                }
            } else {
                let body = sq.join(";");
                if http.post(&body).is_err() {
                    run.violate(Violation { clause: "disconnect-failed".into(), shape: format!("{}: {}", transport, sq.join(" ; ")), detail: "http request failed".into(), replay: json!({"engine":"transport","transport":transport,"commands":sq}) });
                    continue;
                }
                mid = before;
            }
            // while open (tcp): the database of the last successful selection counts one more
            if transport == "tcp" || transport == "websocket" {
                let mut sel: Option<&str> = None;
                for l in sq.iter() {
                    match *l {
                        "use-db t tok" | "use-db t bob bt" => sel = Some("t"),
                        "use-db u tok2" => sel = Some("u"),
                        _ => {}
                    }
                }
                let want_t = before.0 .0 + (sel == Some("t")) as i64;
                let want_u = before.1 .0 + (sel == Some("u")) as i64;
                if mid.0 .0 != want_t || mid.1 .0 != want_u || mid.0 .1 != want_t || mid.1 .1 != want_u {
                    run.violate(Violation { clause: "connection-count-wrong".into(), shape: format!("{} (open): {}", transport, sq.join(" ; ")), detail: format!("while the connection is open: t {:?} u {:?}, expected {} / {}", mid.0, mid.1, want_t, want_u), replay: json!({"engine":"transport","transport":transport,"commands":sq}) });
                }
            }
            // (the WebSocket server runs on_close around the closing handshake, not strictly before it)
            let mut after = (count("t"), count("u"));
            if after != before {
                after = settle(before);
            }
            if after != before {
                run.violate(Violation { clause: "connection-count-not-restored".into(), shape: format!("{}: {}", transport, sq.join(" ; ")), detail: format!("before {:?}, after the connection ended {:?}", before, after), replay: json!({"engine":"transport","transport":transport,"commands":sq}) });
            }
        }
    }
    // clients that do not read what they asked for: replies far bigger than the socket buffers,
    // then an abort (reset), an orderly close, or a late read; the session must still be released
    {
        let mut a = Session::new();
        a.exec(&node, &format!("auth {} {}", USER, PWD));
        a.exec(&node, "use-db t tok");
        a.exec(&node, &format!("set big {}", "x".repeat(3_000_000)));
        let _ = a.disconnect(&node);
        let panics_before = crate::world::PANIC_COUNT.load(std::sync::atomic::Ordering::SeqCst);
        for ending in ["reset at once", "reset after 30 ms", "close without reading", "read late, then close"] {
            for gets in [1usize, 3] {
                n += 1;
                let before = (count("t"), count("u"));
                let mut c = tcp.connect();
                let mut req = String::from("use-db t tok\n");
                for _ in 0..gets {
                    req.push_str("get big\n");
                }
                c.send_raw(req.as_bytes());
                // the ending comes once the server has counted the session (it is then busy writing the replies);
                // if it has not within 10 s the case says nothing and is skipped
                let counted = settle(((before.0 .0 + 1, before.0 .1 + 1), before.1));
                if counted.0 != (before.0 .0 + 1, before.0 .1 + 1) {
                    never_counted += 1;
                    drop(c);
                    let _ = settle(before);
                    continue;
                }
                match ending {
                    "reset at once" => c.reset(),
                    "reset after 30 ms" => {
                        std::thread::sleep(std::time::Duration::from_millis(30));
                        c.reset()
                    }
                    "close without reading" => {
                        std::thread::sleep(std::time::Duration::from_millis(30));
                        drop(c)
                    }
                    _ => {
                        std::thread::sleep(std::time::Duration::from_millis(60));
                        let _ = c.close_and_wait();
                    }
                }
                // the server notices within its poll interval; allow it some time
                let after = settle(before);
                let panics = crate::world::PANIC_COUNT.load(std::sync::atomic::Ordering::SeqCst);
                let shape = format!("tcp client that does not read {} big replies: {}", gets, ending);
                if panics != panics_before {
                    let log = crate::world::PANIC_LOG.lock().unwrap().last().cloned().unwrap_or_default();
                    run.violate(Violation { clause: "disconnect-failed".into(), shape: shape.clone(), detail: format!("the connection's handler thread panicked: {}", log), replay: json!({"engine":"transport","transport":"tcp","ending":ending,"gets":gets}) });
                    break;
                }
                if after != before {
                    run.violate(Violation { clause: "connection-count-not-restored".into(), shape, detail: format!("before {:?}, 10 s after the connection ended {:?}", before, after), replay: json!({"engine":"transport","transport":"tcp","ending":ending,"gets":gets}) });
                }
            }
        }
    }
    // tcp sessions that selected a database and then leave through a read error of the server
    // rather than a clean end of stream: a line that is not UTF-8, a reset with nothing unread
    {
        for ending in ["non-utf8 line, close", "non-utf8 line, reset", "non-utf8 line, use-db u, close", "replies read, reset", "two non-utf8 lines, close"] {
            n += 1;
            let before = (count("t"), count("u"));
            let mut c = tcp.connect();
            let _ = c.cmd("use-db t tok");
            let open = (count("t"), count("u"));
            let shape = format!("tcp session ending with: {}", ending);
            if open != ((before.0 .0 + 1, before.0 .1 + 1), before.1) {
                run.violate(Violation { clause: "count-wrong".into(), shape: shape.clone(), detail: format!("before {:?}, with the session open {:?}", before, open), replay: json!({"engine":"transport","transport":"tcp","ending":ending}) });
            }
            if ending.contains("non-utf8") {
                c.send_raw(b"get \xff\xfe\xfd\n");
                if ending.starts_with("two") {
                    c.send_raw(b"\xc3\x28 k\n");
                }
                std::thread::sleep(std::time::Duration::from_millis(20));
            }
            if ending.contains("use-db u") {
                c.send_raw(b"use-db u tok2\n");
                std::thread::sleep(std::time::Duration::from_millis(40));
                let _ = c.read_line_timeout(200);
            }
            if ending.ends_with("reset") {
                c.reset();
            } else {
                let _ = c.close_and_wait();
            }
            let after = settle(before);
            if after != before {
                run.violate(Violation { clause: "connection-count-not-restored".into(), shape, detail: format!("before {:?}, 10 s after the connection ended {:?}", before, after), replay: json!({"engine":"transport","transport":"tcp","ending":ending}) });
            }
        }
    }
    // WebSocket clients that vanish without the closing handshake
    for ending in ["tcp close without handshake", "tcp reset"] {
        for sq in [vec!["use-db t tok"], vec!["use-db t tok", "use-db u tok2"], vec!["use-db t bob bt", "watch k"]] {
            n += 1;
            let before = (count("t"), count("u"));
            let mut c = match ws.connect() {
                Ok(c) => c,
                Err(e) => {
                    run.violate(Violation { clause: "disconnect-failed".into(), shape: format!("websocket, {}: {}", ending, sq.join(" ; ")), detail: format!("cannot connect: {}", e), replay: json!({"engine":"transport","transport":"websocket","commands":sq}) });
                    break;
                }
            };
            let frames: Vec<String> = sq.iter().map(|l| l.to_string()).collect();
            let _ = c.frames_until_marker(&frames);
            c.drop_abruptly(ending == "tcp reset");
            let after = settle(before);
            if after != before {
                run.violate(Violation { clause: "connection-count-not-restored".into(), shape: format!("websocket, {}: {}", ending, sq.join(" ; ")), detail: format!("before {:?}, 10 s after the connection vanished {:?}", before, after), replay: json!({"engine":"transport","transport":"websocket","ending":ending,"commands":sq}) });
            }
            if ws.service_dead() {
                run.violate(Violation { clause: "disconnect-failed".into(), shape: format!("websocket, {}: {}", ending, sq.join(" ; ")), detail: "the WebSocket event loop ended".into(), replay: json!({"engine":"transport","transport":"websocket","ending":ending,"commands":sq}) });
                break;
            }
        }
    }
    run.cov("transport_sessions", json!(n));
    run.cov("transport_sessions_never_counted_within_10s", json!(never_counted));
    run.cov_add("states", n);
    run.cov_add("transitions", n);
    crate::world::set_fallback_ctx(None);
    node.remove_dir();
}
