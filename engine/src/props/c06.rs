//! C06 — snapshot then restart restores exactly the snapshotted state (disk strategy). SEQ.
use crate::report::Run;
use crate::seq::*;
use crate::world::*;
use nundb::bo::*;
use std::collections::BTreeMap;
use std::sync::Arc;

pub const VLONG: &str = "0123456789012345678901234567890123456789";

#[derive(Clone, Debug)]
pub enum L {
    Set { key: &'static str, val: &'static str },
    SetSafe { key: &'static str },
    Remove { key: &'static str },
    Inc { key: &'static str },
    Snapshot { reclaim: bool, order: usize },
    Restart,
}

/// what a snapshotted database must look like after a restart
#[derive(Clone, Debug, PartialEq, Eq)]
pub struct SnapState {
    pub live: BTreeMap<String, (String, i32)>,
    pub id: usize,
    pub strategy: i32,
}

pub struct W {
    pub ctx: Arc<NodeCtx>,
    pub node: Node,
    pub admin: Session,
    pub tok: Session,
    /// reference model of the in-memory live values of db t
    pub model: BTreeMap<String, String>,
    /// reference: state of each database at its last completed snapshot
    pub snap: BTreeMap<String, SnapState>,
    pub steps: usize,
}

fn open_sessions(node: &Node) -> (Session, Session) {
    let mut admin = Session::new();
    let mut tok = Session::new();
    admin.exec(node, &format!("auth {} {}", USER, PWD));
    admin.exec(node, "use-db t tok");
    tok.exec(node, "use-db t tok");
    (admin, tok)
}

pub fn snap_state_of(dbs: &Arc<Databases>, name: &str) -> Option<SnapState> {
    with_db(dbs, name, |db| SnapState {
        live: live_view(&dump_db(db)),
        id: db.metadata.id,
        strategy: db.metadata.consensus_strategy as i32,
    })
}

impl W {
    pub fn new(tag: &str) -> W {
        let ctx = NodeCtx::new(fresh_dir(tag), 1000);
        let node = Node::start(ctx.clone(), "n1:1", 1);
        node.set_role(ClusterRole::Primary);
        let mut admin = Session::new();
        admin.exec(&node, &format!("auth {} {}", USER, PWD));
        let o = admin.exec(&node, "create-db t tok none");
        assert_eq!(o.resp, "Ok");
        let o = admin.exec(&node, "create-db u tok2 arbiter");
        assert_eq!(o.resp, "Ok");
        admin.exec(&node, "use-db u tok2");
        admin.exec(&node, "set z zz");
        let o = admin.exec(&node, "snapshot false u");
        assert_eq!(o.resp, "Ok", "{:?}", o);
        node.run_snapshot_queue();
        let mut snap = BTreeMap::new();
        snap.insert("u".to_string(), snap_state_of(&node.dbs, "u").unwrap());
        let _ = admin.disconnect(&node);
        let (admin, tok) = open_sessions(&node);
        let mut model = BTreeMap::new();
        model.insert("$$token".to_string(), "tok".to_string());
        model.insert("$connections".to_string(), "2".to_string());
        let mut w = W { ctx, node, admin, tok, model, snap, steps: 0 };
        w.node.drain_queues();
        w
    }

    pub fn finish(self) {
        self.node.remove_dir();
    }

    fn user_dirty(&self) -> Vec<String> {
        with_db(&self.node.dbs, "t", |db| {
            dump_db(db)
                .iter()
                .filter(|(k, v)| !k.starts_with('$') && v.state != ValueStatus::Ok as u8)
                .map(|(k, _)| k.clone())
                .collect()
        })
        .unwrap_or_default()
    }

    /// Start a second node on a copy of the directory and compare what it loads with the
    /// reference snapshot state (every snapshotted database; nothing else is required).
    pub fn shadow_restart_check(&self) -> Result<(), String> {
        let copy = fresh_dir("c06-shadow");
        copy_dir(&self.ctx.dir, &copy);
        let ctx2 = NodeCtx::new(copy.clone(), 900_000);
        let r = std::panic::catch_unwind(std::panic::AssertUnwindSafe(|| Node::start(ctx2.clone(), "n1:1", 1)));
        self.ctx.install();
        let res = match r {
            Err(e) => Err(format!("start-up panicked: {} at {:?}", panic_msg(&e), take_panic_loc())),
            Ok(n2) => compare_loaded(&n2.dbs, &self.snap),
        };
        let _ = std::fs::remove_dir_all(&copy);
        res
    }
}

pub fn compare_loaded(dbs: &Arc<Databases>, snap: &BTreeMap<String, SnapState>) -> Result<(), String> {
    for (name, want) in snap.iter() {
        match snap_state_of(dbs, name) {
            None => return Err(format!("database {} missing after restart", name)),
            Some(got) => {
                if got.live != want.live {
                    let mut diffs = vec![];
                    for (k, v) in want.live.iter() {
                        match got.live.get(k) {
                            None => diffs.push(format!("lost {}={:?}", k, v)),
                            Some(g) if g != v => diffs.push(format!("{}: snapshotted {:?} loaded {:?}", k, v, g)),
                            _ => {}
                        }
                    }
                    for (k, v) in got.live.iter() {
                        if !want.live.contains_key(k) {
                            diffs.push(format!("resurrected/invented {}={:?}", k, v));
                        }
                    }
                    return Err(format!("db {}: {}", name, diffs.join(", ")));
                }
                if got.id != want.id || got.strategy != want.strategy {
                    return Err(format!(
                        "db {} metadata: snapshotted id={} strategy={} loaded id={} strategy={}",
                        name, want.id, want.strategy, got.id, got.strategy
                    ));
                }
            }
        }
    }
    Ok(())
}

pub fn copy_dir(from: &std::path::Path, to: &std::path::Path) {
    std::fs::create_dir_all(to).unwrap();
    if let Ok(rd) = std::fs::read_dir(from) {
        for e in rd.flatten() {
            let p = e.path();
            let t = to.join(e.file_name());
            if p.is_dir() {
                copy_dir(&p, &t);
            } else {
                let _ = std::fs::copy(&p, &t);
            }
        }
    }
}

pub struct C06 {
    pub letters: Vec<L>,
    pub extra_roots: bool,
}

impl C06 {
    pub fn new(quick: bool) -> C06 {
        let mut l = vec![];
        let keys: &[&'static str] = if quick { &["a", "bb"] } else { &["a", "bb", "ccc"] };
        let vals: &[&'static str] = if quick { &["1", "é", ""] } else { &["1", "é", "", VLONG] };
        for k in keys {
            for v in vals {
                l.push(L::Set { key: k, val: v });
            }
        }
        for k in keys {
            l.push(L::Remove { key: k });
            l.push(L::Inc { key: k });
        }
        if !quick {
            for k in keys {
                l.push(L::SetSafe { key: k });
            }
        }
        let orders = if quick { 2 } else { 6 };
        for o in 0..orders {
            l.push(L::Snapshot { reclaim: false, order: o });
        }
        for o in 0..(if quick { 1 } else { 2 }) {
            l.push(L::Snapshot { reclaim: true, order: o });
        }
        l.push(L::Restart);
        C06 { letters: l, extra_roots: true }
    }
}

fn v(clause: &str, detail: String) -> Vec<StepViolation> {
    vec![StepViolation { clause: clause.to_string(), detail, shape: None, soft: false }]
}

fn nperms(n: usize) -> usize {
    (1..=n).product::<usize>().max(1)
}

impl SeqModel for C06 {
    type World = W;
    fn letters(&self) -> Vec<String> {
        self.letters.iter().map(|l| format!("{:?}", l)).collect()
    }
    fn new_world(&self) -> W {
        W::new("c06")
    }
    fn drop_world(&self, w: W) {
        w.finish()
    }
    fn key(&self, w: &W) -> String {
        let mut all = dump_all(&w.node.dbs);
        rank_opp_ids(&mut all);
        format!("{:?}|{:?}|{:?}|{}", w.model, w.snap, all, dir_digest(&w.ctx.dir))
    }
    fn roots(&self) -> Vec<Vec<usize>> {
        // non-initial start states: an already persisted dataset, and one with a persisted removal
        let find = |name: &str| self.letters.iter().position(|l| format!("{:?}", l) == name).unwrap();
        let set_a = find("Set { key: \"a\", val: \"1\" }");
        let set_b = find("Set { key: \"bb\", val: \"1\" }");
        let snap = find("Snapshot { reclaim: false, order: 0 }");
        let rm_a = find("Remove { key: \"a\" }");
        let mut r = vec![vec![], vec![set_a, set_b, snap], vec![set_a, set_b, snap, rm_a, snap]];
        if !self.extra_roots {
            r.truncate(1);
        }
        r
    }
    fn enabled(&self, w: &W, letter: usize) -> bool {
        match &self.letters[letter] {
            // a different write order only exists when that many user keys are dirty
            L::Snapshot { order, reclaim } => {
                if *order == 0 {
                    true
                } else if *reclaim {
                    let n = w.model.keys().filter(|k| !k.starts_with('$')).count();
                    *order < nperms(n.min(3))
                } else {
                    *order < nperms(w.user_dirty().len().min(3))
                }
            }
            _ => true,
        }
    }
    fn step(&self, w: &mut W, letter: usize) -> Vec<StepViolation> {
        w.ctx.install();
        let l = self.letters[letter].clone();
        w.steps += 1;
        match &l {
            L::Set { key, val } => {
                let o = w.tok.exec(&w.node, &format!("set {} {}", key, val));
                if o.resp != "Ok" {
                    return v("reply-mismatch", format!("{:?}: {:?}", l, o));
                }
                w.model.insert(key.to_string(), val.to_string());
            }
            L::SetSafe { key } => {
                let cur = with_db(&w.node.dbs, "t", |db| dump_db(db).get(*key).map(|k| k.version).unwrap_or(1)).unwrap_or(1);
                let o = w.tok.exec(&w.node, &format!("set-safe {} {} ss", key, cur));
                if o.resp != "Ok" {
                    return v("reply-mismatch", format!("{:?}: {:?}", l, o));
                }
                w.model.insert(key.to_string(), "ss".to_string());
            }
            L::Remove { key } => {
                let o = w.tok.exec(&w.node, &format!("remove {}", key));
                if o.resp != "Ok" {
                    return v("reply-mismatch", format!("{:?}: {:?}", l, o));
                }
                w.model.remove(*key);
            }
            L::Inc { key } => {
                let o = w.tok.exec(&w.node, &format!("increment {}", key));
                let cur = w.model.get(*key).cloned().unwrap_or("0".into());
                match i32::from_str_radix(&cur, 10).ok().and_then(|c| c.checked_add(1)) {
                    Some(n) => {
                        if o.resp != "Ok" {
                            return v("reply-mismatch", format!("{:?}: {:?}", l, o));
                        }
                        w.model.insert(key.to_string(), n.to_string());
                    }
                    None => {
                        if !o.resp.starts_with("Error(") {
                            return v("reply-mismatch", format!("{:?}: {:?}", l, o));
                        }
                    }
                }
            }
            L::Snapshot { reclaim, order } => {
                let o = w.admin.exec(&w.node, &format!("snapshot {} t", reclaim));
                if o.resp != "Ok" {
                    return v("reply-mismatch", format!("{:?}: {:?}", l, o));
                }
                // impose the write order: system keys first (sorted), user keys permuted
                let n_user = if *reclaim {
                    w.model.keys().filter(|k| !k.starts_with('$')).count()
                } else {
                    w.user_dirty().len()
                };
                *w.ctx.key_order.lock().unwrap() = None;
                let perm_user = if n_user <= 3 {
                    crate::util::permutations(n_user).get(*order).cloned()
                } else {
                    None
                };
                w.ctx.user_perm.lock().unwrap().clone_from(&perm_user);
                let r = std::panic::catch_unwind(std::panic::AssertUnwindSafe(|| w.node.run_snapshot_queue()));
                *w.ctx.user_perm.lock().unwrap() = None;
                if let Err(e) = r {
                    return v("panic", format!("snapshot panicked: {} at {:?}", panic_msg(&e), take_panic_loc()));
                }
                // the in-memory state must not change in anything a client can see
                let got = snap_state_of(&w.node.dbs, "t").unwrap();
                let got_vals: BTreeMap<String, String> = got.live.iter().map(|(k, v)| (k.clone(), v.0.clone())).collect();
                if got_vals != w.model {
                    return v("snapshot-changed-memory", format!("after {:?}: memory {:?} model {:?}", l, got_vals, w.model));
                }
                w.snap.insert("t".to_string(), got);
                if let Err(e) = w.shadow_restart_check() {
                    return v("restart-mismatch", format!("restart right after {:?}: {}", l, e));
                }
            }
            L::Restart => {
                // the old process is gone: nothing of it may be used again
                let ctx = w.ctx.clone();
                let r = std::panic::catch_unwind(std::panic::AssertUnwindSafe(|| Node::start(ctx, "n1:1", 1)));
                let node = match r {
                    Ok(n) => n,
                    Err(e) => return v("restart-panic", format!("start-up panicked: {} at {:?}", panic_msg(&e), take_panic_loc())),
                };
                node.set_role(ClusterRole::Primary);
                if let Err(e) = compare_loaded(&node.dbs, &w.snap) {
                    return v("restart-mismatch", format!("after Restart: {}", e));
                }
                w.node = node;
                if !w.snap.contains_key("t") {
                    // t was never snapshotted: it is gone; recreate it so the history can go on
                    let mut a = Session::new();
                    a.exec(&w.node, &format!("auth {} {}", USER, PWD));
                    let o = a.exec(&w.node, "create-db t tok none");
                    if o.resp != "Ok" {
                        return v("reply-mismatch", format!("create-db after restart: {:?}", o));
                    }
                    w.model.clear();
                    w.model.insert("$$token".to_string(), "tok".to_string());
                } else {
                    w.model = w.snap["t"].live.iter().map(|(k, v)| (k.clone(), v.0.clone())).collect();
                }
                let (a, t) = open_sessions(&w.node);
                w.admin = a;
                w.tok = t;
                w.model.insert("$connections".to_string(), "2".to_string());
            }
        }
        w.node.drain_queues();
        // read paths agree with the model in every state
        let got = snap_state_of(&w.node.dbs, "t").map(|s| s.live.iter().map(|(k, v)| (k.clone(), v.0.clone())).collect::<BTreeMap<_, _>>());
        if got.as_ref() != Some(&w.model) {
            return v("state-mismatch", format!("after {:?}: memory {:?} model {:?}", l, got, w.model));
        }
        vec![]
    }
}

pub fn run(run: &mut Run) {
    let quick = run.quick();
    let m = C06::new(quick);
    let cfg = SeqConfig {
        max_depth: crate::util::env_u64("NUNMC_DEPTH", if quick { 5 } else { 8 }) as usize,
        workers: crate::util::workers(),
        max_states: if quick { 300_000 } else { 5_000_000 },
        budget: std::time::Duration::from_secs(if quick { 45 } else { 2400 }),
    };
    let res = explore(&m, &cfg);
    super::seq_report(run, &m, &res, &cfg);
    let deep = ["Set { key: \"a\", val: \"1\" }", "Set { key: \"a\", val: \"é\" }", "Set { key: \"bb\", val: \"1\" }", "Remove { key: \"a\" }", "Inc { key: \"a\" }", "Snapshot { reclaim: false, order: 0 }", "Snapshot { reclaim: true, order: 0 }", "Restart"];
    super::deep_pass(run, &m, &deep, if quick { 5 } else { 7 }, if quick { 30 } else { 1200 });
    run.assume("the search starts from three root states: empty database, {a,bb} persisted, {a,bb} persisted then a removed and persisted; the depth bound counts from each root");
    run.assume("every state reached by a snapshot letter is additionally restarted on a copy of its directory (so a depth-d history covers the d+1 step 'then restart')");
    run.assume("snapshots run with no concurrent writers (schedule quantifier not part of C06)");
    run.assume("start-up sequence of main.rs::start_db reproduced by world::Node::start (load key map, oplog flag, clean, create, load_all_dbs)");
}
