//! C03, sequential part: every history of subscription commands (watch / unwatch / unwatch-all /
//! disconnect, from several sessions, on watched and never-watched keys) up to a depth, executed
//! WITHOUT state merging (a subscription book-keeping the canonical key does not know about - a
//! counter, a cache of "is anybody watching" - cannot be merged away). After every letter a fixed
//! batch of writes (plain, refused, replicated, remove + re-creation) is issued by a session that
//! watches nothing, and every session's stream is compared with a reference model: the set of keys
//! the session watches.
use crate::report::Run;
use crate::seq::*;
use crate::world::*;
use serde_json::json;
use std::collections::BTreeSet;

#[derive(Clone, Debug)]
enum L {
    Watch { s: usize, key: &'static str },
    Unwatch { s: usize, key: &'static str },
    UnwatchAll { s: usize },
    Disconnect { s: usize },
}

pub struct C03Seq {
    letters: Vec<L>,
    nsess: usize,
}

pub struct W {
    node: Node,
    writer: Session,
    admin: Session,
    sess: Vec<Session>,
    watch: Vec<BTreeSet<String>>,
    n: u64,
}

impl C03Seq {
    pub fn new(nsess: usize, quick: bool) -> C03Seq {
        let mut letters = vec![];
        for s in 0..nsess {
            letters.push(L::Watch { s, key: "k" });
            letters.push(L::Watch { s, key: "j" });
            letters.push(L::Unwatch { s, key: "k" });
            if !quick {
                letters.push(L::Unwatch { s, key: "j" });
            }
            // a key nobody ever watches
            letters.push(L::Unwatch { s, key: "x" });
            letters.push(L::UnwatchAll { s });
            letters.push(L::Disconnect { s });
        }
        C03Seq { letters, nsess }
    }
}

fn v(clause: &str, detail: String) -> Vec<StepViolation> {
    vec![StepViolation { clause: clause.to_string(), detail, shape: None, soft: false }]
}

impl SeqModel for C03Seq {
    type World = W;
    fn letters(&self) -> Vec<String> {
        self.letters.iter().map(|l| format!("{:?}", l)).collect()
    }
    fn new_world(&self) -> W {
        let node = Node::new_single("c03s");
        let mut admin = Session::new();
        admin.exec(&node, &format!("auth {} {}", USER, PWD));
        admin.exec(&node, "create-db t tok none");
        admin.exec(&node, "use-db t tok");
        let mut writer = Session::new();
        writer.exec(&node, "use-db t tok");
        // k and j exist with a version above 0, so that `set-safe k 0 ..` is a refused write
        for l in ["set k 0", "set k 0", "set j 0", "set j 0"] {
            writer.exec(&node, l);
        }
        let mut sess = vec![];
        for _ in 0..self.nsess {
            let mut s = Session::new();
            s.exec(&node, "use-db t tok");
            sess.push(s);
        }
        let mut w = W { node, writer, admin, sess, watch: vec![BTreeSet::new(); self.nsess], n: 0 };
        w.node.drain_queues();
        w
    }
    fn drop_world(&self, w: W) {
        w.node.remove_dir()
    }
    fn key(&self, w: &W) -> String {
        format!("{:?}|{:?}", w.watch, with_db(&w.node.dbs, "t", |d| watcher_counts(d)))
    }
    fn step(&self, w: &mut W, letter: usize) -> Vec<StepViolation> {
        w.node.ctx.install();
        let l = self.letters[letter].clone();
        match &l {
            L::Watch { s, key } => {
                // a second watch of a key the session already watches is left out: the statement does not say
                // whether it means one or two notifications per change
                if !w.watch[*s].contains(*key) {
                    let o = w.sess[*s].exec(&w.node, &format!("watch {}", key));
                    if o.resp != "Ok" || !o.msgs.is_empty() {
                        return v("reply-mismatch", format!("{:?}: {:?}", l, o));
                    }
                    w.watch[*s].insert(key.to_string());
                }
            }
            L::Unwatch { s, key } => {
                let o = w.sess[*s].exec(&w.node, &format!("unwatch {}", key));
                if o.resp != "Ok" || !o.msgs.is_empty() {
                    return v("reply-mismatch", format!("{:?}: {:?}", l, o));
                }
                w.watch[*s].remove(*key);
            }
            L::UnwatchAll { s } => {
                let o = w.sess[*s].exec(&w.node, "unwatch-all");
                if o.resp != "Ok" || !o.msgs.is_empty() {
                    return v("reply-mismatch", format!("{:?}: {:?}", l, o));
                }
                w.watch[*s].clear();
            }
            L::Disconnect { s } => {
                let o = w.sess[*s].disconnect(&w.node);
                if o.panic.is_some() {
                    return v("disconnect-panicked", format!("{:?}: {:?}", l, o));
                }
                w.watch[*s].clear();
                let mut n = Session::new();
                n.exec(&w.node, "use-db t tok");
                w.sess[*s] = n;
            }
        }
        // the probe batch
        w.n += 1;
        let n = w.n;
        // (command, session that issues it: false = token session, true = administrator), key, expected line for a watcher
        let batch: Vec<(String, bool, &str, Option<String>)> = vec![
            (format!("set k p{}", n), false, "k", Some(format!("changed k p{}\n", n))),
            (format!("set j q{}", n), false, "j", Some(format!("changed j q{}\n", n))),
            (format!("set-safe k 0 stale{}", n), false, "k", None),
            (format!("replicate t j -1 r{}", n), true, "j", Some(format!("changed j r{}\n", n))),
            ("remove k".to_string(), false, "k", Some("removed k\n".to_string())),
            (format!("rp 7{} replicate t k -1 s{}", n, n), true, "k", Some(format!("changed k s{}\n", n))),
            (format!("set k t{}", n), false, "k", Some(format!("changed k t{}\n", n))),
            (format!("set never u{}", n), false, "never", Some(format!("changed never u{}\n", n))),
        ];
        let mut expected: Vec<Vec<String>> = vec![vec![]; self.nsess];
        for (cmd, as_admin, key, line) in batch.iter() {
            let o = if *as_admin { w.admin.exec(&w.node, cmd) } else { w.writer.exec(&w.node, cmd) };
            if o.panic.is_some() {
                return v("write-panicked", format!("after {:?}: `{}` {:?}", l, cmd, o));
            }
            if let Some(line) = line {
                for s in 0..self.nsess {
                    if w.watch[s].contains(*key) {
                        expected[s].push(line.clone());
                    }
                }
            }
        }
        w.node.drain_queues();
        let _ = w.writer.drain();
        let _ = w.admin.drain();
        for s in 0..self.nsess {
            let got = w.sess[s].drain();
            let main: Vec<String> = got.iter().filter(|m| !m.starts_with("changed-version ")).cloned().collect();
            if main != expected[s] {
                let missing = expected[s].iter().filter(|e| !main.contains(e)).count();
                let clause = if missing > 0 { "missed-notification" } else if main.len() > expected[s].len() { "unexpected-notification" } else { "notification-order" };
                return v(clause, format!("after {:?} session {} watches {:?}; the writes {:?} must give it {:?}, it received {:?}", l, s, w.watch[s], batch.iter().map(|b| b.0.clone()).collect::<Vec<_>>(), expected[s], got));
            }
            let n_changed = main.iter().filter(|m| m.starts_with("changed ")).count();
            let n_ver = got.iter().filter(|m| m.starts_with("changed-version ")).count();
            if n_changed != n_ver {
                return v("unpaired-notification", format!("after {:?} session {}: {} changed vs {} changed-version lines: {:?}", l, s, n_changed, n_ver, got));
            }
        }
        vec![]
    }
}

pub fn run(run: &mut Run) {
    let quick = run.quick();
    // (sessions, depth)
    let passes: &[(usize, usize)] = if quick { &[(2, 5)] } else { &[(2, 6), (3, 5)] };
    let mut complete = true;
    let mut info = vec![];
    for (nsess, depth) in passes.iter() {
        let m = C03Seq::new(*nsess, quick);
        let sub: Vec<usize> = (0..m.letters.len()).collect();
        let res = explore_all_histories(&m, &[], &sub, *depth, crate::util::workers(), std::time::Duration::from_secs(if quick { 60 } else { 900 }));
        complete &= res.exhausted_bound;
        info.push(json!({"sessions": nsess, "depth": depth, "letters": sub.len(), "histories": res.histories, "transitions": res.transitions, "complete": res.exhausted_bound, "cap": res.cap_hit}));
        run.cov_add("states", res.states);
        run.cov_add("transitions", res.transitions);
        run.cov_add("traces_validated_against_impl", res.histories);
        run.cov_add("subscription_histories", res.histories);
        let letters = m.letters();
        if let Some(s) = res.samples.first() {
            run.sample(json!({"subscription_history": names(&letters, s)}));
        }
        for fv in res.violations.iter() {
            let hist = names(&letters, &fv.history);
            run.violate(crate::report::Violation {
                clause: fv.clause.clone(),
                shape: format!("subscription history: {}", hist.join(" ; ")),
                detail: fv.detail.clone(),
                replay: json!({"engine": "seq", "property": "C03", "sessions": nsess, "history": fv.history, "letters": hist}),
            });
        }
    }
    run.cov("subscription_history_passes", json!(info));
    let ex = run.coverage.get("exhaustive").and_then(|v| v.as_bool()).unwrap_or(true);
    run.cov("exhaustive", json!(ex && complete));
    run.assume("sequential subscription histories: after every subscription command a fixed batch of eight writes (plain, refused, replicated, rp-wrapped, remove, re-creation, a key nobody watches) is issued; a repeated watch of an already watched key is left out");
}
