//! Command-line alphabets generated from the parser's own command table.
use nundb::bo::Request;
use std::collections::BTreeMap;

pub fn command_words() -> Vec<String> {
    let mut w = Request::command_list();
    w.sort();
    w
}

/// Lines for every command word with the given key-like arguments in every argument shape the
/// parser distinguishes; deduplicated by the real parser's result (two lines that parse to the
/// same Request are the same letter).
pub fn lines_for_keys(keys: &[&str], db: &str, with_rp: bool) -> Vec<String> {
    let mut raw: Vec<String> = vec![];
    for w in command_words() {
        raw.push(w.clone());
        for k in keys {
            raw.push(format!("{} {}", w, k));
            raw.push(format!("{} {} 1", w, k));
            raw.push(format!("{} {} v", w, k));
            raw.push(format!("{} {} 7 v", w, k));
            raw.push(format!("{} {} {}", w, db, k));
            raw.push(format!("{} {} {} v", w, db, k));
            raw.push(format!("{} {} {} 7 v", w, db, k));
            raw.push(format!("{} 5 {} {} 7 v", w, db, k));
            raw.push(format!("{} false {}", w, k));
        }
    }
    let mut all = raw.clone();
    if with_rp {
        for l in raw.iter() {
            all.push(format!("rp 5 {}", l));
        }
    }
    dedup_by_parse(all)
}

pub fn parse_key(l: &str) -> String {
    match std::panic::catch_unwind(|| Request::parse(l.trim_matches('\n'))) {
        Ok(Ok(r)) => format!("{:?}", r),
        Ok(Err(e)) => format!("ERR:{}", e),
        // the parser itself panics on this line: keep one representative per panic message
        Err(e) => format!("PANIC:{}", crate::world::panic_msg(&e)),
    }
}

pub fn dedup_by_parse(lines: Vec<String>) -> Vec<String> {
    let mut seen: BTreeMap<String, String> = BTreeMap::new();
    let mut out = vec![];
    for l in lines {
        let key = parse_key(&l);
        if !seen.contains_key(&key) {
            seen.insert(key, l.clone());
            out.push(l);
        }
    }
    out
}
