//! C03 — watchers get every committed change, only committed changes, and end up current.
//! ILV: subscriber, second subscriber and writer sessions as real threads under the controlled
//! scheduler; oracle evaluated on the call/return history and the subscriber's message stream.
use super::conc::*;
use crate::ilv::*;
use crate::report::{Run, Violation};
use crate::world::*;
use serde_json::json;
use std::collections::BTreeSet;
use std::time::Duration;

pub struct Scenario {
    pub name: &'static str,
    pub setup: Setup,
    /// programs per session; session 0 is the subscriber under observation
    pub programs: Vec<Vec<String>>,
    /// keys the subscriber watches in this scenario (from init or program)
    pub sub_keys: Vec<&'static str>,
}

fn tok() -> String {
    "use-db t tok".to_string()
}

pub fn scenarios(quick: bool) -> Vec<Scenario> {
    let s = |v: &[&str]| v.iter().map(|x| x.to_string()).collect::<Vec<String>>();
    let mut out = vec![];
    // another client's unwatch / unwatch-all / disconnect while the subscriber subscribes
    for other in [s(&["unwatch-all"]), s(&["unwatch k"]), s(&["<disconnect>"]), s(&["watch k", "unwatch k"])] {
        out.push(Scenario {
            name: "subscribe-vs-other-unsubscribe",
            setup: Setup { strategy: "none", init: s(&["set k 0", "set j 0"]), session_init: vec![vec![tok()], vec![tok(), "watch k".into(), "watch j".into()], vec![tok()]], check_replica: false },
            programs: vec![s(&["watch k"]), other, s(&["set k a1"])],
            sub_keys: vec!["k"],
        });
    }
    // the same on a key that holds no value yet (an implementation may treat the watcher list of an absent key
    // differently, e.g. release it when its last watcher leaves)
    for other in [s(&["unwatch n"]), s(&["unwatch-all"]), s(&["<disconnect>"])] {
        out.push(Scenario {
            name: "subscribe-vs-other-unsubscribe-on-absent-key",
            setup: Setup { strategy: "none", init: s(&["set j 0"]), session_init: vec![vec![tok()], vec![tok(), "watch n".into()], vec![tok()]], check_replica: false },
            programs: vec![s(&["watch n"]), other, s(&["set n a1"])],
            sub_keys: vec!["n"],
        });
    }
    // subscribed from the start; another client subscribes and leaves; writer writes twice
    for other in [s(&["watch k", "unwatch k"]), s(&["watch k", "unwatch-all"]), s(&["watch k", "<disconnect>"]), s(&["watch j", "unwatch-all"])] {
        out.push(Scenario {
            name: "subscribed-vs-other-churn",
            setup: Setup { strategy: "none", init: s(&["set k 0", "set j 0"]), session_init: vec![vec![tok(), "watch k".into()], vec![tok()], vec![tok()]], check_replica: false },
            programs: vec![vec![], other, s(&["set k a1", "set k a2"])],
            sub_keys: vec!["k"],
        });
    }
    // subscribe / unsubscribe racing with writes
    for sub in [s(&["watch k", "unwatch k"]), s(&["watch k", "unwatch-all"]), s(&["watch k", "<disconnect>"])] {
        out.push(Scenario {
            name: "own-subscribe-unsubscribe-vs-writes",
            setup: Setup { strategy: "none", init: s(&["set k 0"]), session_init: vec![vec![tok()], vec![tok()]], check_replica: false },
            programs: vec![sub, s(&["set k a1", "set k a2"])],
            sub_keys: vec!["k"],
        });
    }
    // refused writes, other keys, removes, increments
    out.push(Scenario {
        name: "refused-and-foreign-writes",
        setup: Setup { strategy: "none", init: s(&["set k 0", "set k 0", "set j 0"]), session_init: vec![vec![tok(), "watch k".into()], vec![tok()], vec![tok()]], check_replica: false },
        programs: vec![vec![], s(&["set-safe k 0 r1", "set j x1", "remove k"]), s(&["set k a1"])],
        sub_keys: vec!["k"],
    });
    out.push(Scenario {
        name: "two-writers-final-view",
        setup: Setup { strategy: "none", init: s(&["set k 0"]), session_init: vec![vec![tok(), "watch k".into()], vec![tok()], vec![tok()]], check_replica: false },
        programs: vec![vec![], s(&["set k a1", "set-safe k 5 a3"]), s(&["set k a2"])],
        sub_keys: vec!["k"],
    });
    out.push(Scenario {
        name: "two-incrementers",
        setup: Setup { strategy: "none", init: s(&["set k 5"]), session_init: vec![vec![tok(), "watch k".into()], vec![tok()], vec![tok()]], check_replica: false },
        programs: vec![vec![], s(&["increment k", "remove k"]), s(&["increment k"])],
        sub_keys: vec!["k"],
    });
    // a write that stores the value the key already holds is a mutation like any other
    out.push(Scenario {
        name: "same-value-rewritten",
        setup: Setup { strategy: "none", init: s(&["set k a1"]), session_init: vec![vec![tok(), "watch k".into()], vec![tok()], vec![tok()]], check_replica: false },
        programs: vec![vec![], s(&["set k a1", "set-safe k 9 a1"]), s(&["set k a2", "set k a2"])],
        sub_keys: vec!["k"],
    });
    // writes that arrive over a replication link (an administrator session issuing replicate*)
    let link = || vec![format!("auth {} {}", USER, PWD)];
    out.push(Scenario {
        name: "replicated-writes",
        setup: Setup { strategy: "none", init: s(&["set k 0", "set j 0"]), session_init: vec![vec![tok(), "watch k".into()], link(), vec![tok()]], check_replica: false },
        programs: vec![vec![], s(&["replicate t k -1 a1", "replicate t j -1 x1", "replicate-remove t k"]), s(&["set k a2"])],
        sub_keys: vec!["k"],
    });
    // the same commands as a primary sends them: wrapped in `rp <operation id>` (acknowledged afterwards)
    out.push(Scenario {
        name: "replicated-writes-with-operation-id",
        setup: Setup { strategy: "none", init: s(&["set k 0", "set j 0"]), session_init: vec![vec![tok(), "watch k".into()], link(), vec![tok()]], check_replica: false },
        programs: vec![vec![], s(&["rp 41 replicate t k -1 a1", "rp 42 replicate-remove t k"]), s(&["set k a2"])],
        sub_keys: vec!["k"],
    });
    // (the wrapper answers Ok whatever the wrapped command did, so a wrapped increment is only used
    // where it cannot be refused: on a key that only ever holds numbers)
    out.push(Scenario {
        name: "replicated-increments-with-operation-id",
        setup: Setup { strategy: "none", init: s(&["set k 5"]), session_init: vec![vec![tok(), "watch k".into()], link(), vec![tok()]], check_replica: false },
        programs: vec![vec![], s(&["rp 43 replicate-increment t k 1", "rp 44 replicate-increment t k 1"]), s(&["increment k"])],
        sub_keys: vec!["k"],
    });
    out.push(Scenario {
        name: "replicated-increments",
        setup: Setup { strategy: "none", init: s(&["set k 5"]), session_init: vec![vec![tok(), "watch k".into()], link(), vec![tok()]], check_replica: false },
        programs: vec![vec![], s(&["replicate-increment t k 1", "replicate t k -1 a1"]), s(&["increment k"])],
        sub_keys: vec!["k"],
    });
    // a newer-strategy database: a versioned write with a stale version is resolved, and the one
    // issued last is stored; stored it is a mutation like any other (one writer, so every write
    // is the most recently issued one when it arrives)
    let admin_tok = || vec![format!("auth {} {}", USER, PWD), tok()];
    out.push(Scenario {
        name: "newer-db-stale-versioned-writes",
        setup: Setup { strategy: "newer", init: s(&["set k 0", "set k 0", "set j 0"]), session_init: vec![vec![tok(), "watch k".into()], admin_tok(), vec![tok()]], check_replica: false },
        programs: vec![vec![], s(&["set-safe k 0 a1", "replicate t k 1 a2", "rp 45 replicate t k 0 a3"]), s(&["watch j", "unwatch-all"])],
        sub_keys: vec!["k"],
    });
    out.push(Scenario {
        name: "newer-db-stale-versioned-writes",
        setup: Setup { strategy: "newer", init: s(&["set k 0", "set k 0", "set j 0"]), session_init: vec![vec![tok()], admin_tok(), vec![tok()]], check_replica: false },
        programs: vec![s(&["watch k"]), s(&["set-safe k 0 a1", "set-safe k 0 a2"]), s(&["set j x1"])],
        sub_keys: vec!["k"],
    });
    if !quick {
        out.push(Scenario {
            name: "two-subscribers-two-writers",
            setup: Setup { strategy: "none", init: s(&["set k 0", "set j 0"]), session_init: vec![vec![tok()], vec![tok(), "watch k".into()], vec![tok()], vec![tok()]], check_replica: false },
            programs: vec![s(&["watch k", "watch j"]), s(&["unwatch-all"]), s(&["set k a1", "set j b1"]), s(&["set k a2"])],
            sub_keys: vec!["k", "j"],
        });
    }
    out
}

/// thread body that also understands the pseudo command <disconnect>
fn body3(dbs: std::sync::Arc<nundb::bo::Databases>, mut sess: Session, tid: usize, program: Vec<String>) -> Box<dyn FnOnce(&std::sync::Arc<Sched>) -> (Vec<OpRec>, Session) + Send> {
    Box::new(move |sched: &std::sync::Arc<Sched>| {
        let mut out = vec![];
        for (idx, line) in program.iter().enumerate() {
            let call = sched.seq.fetch_add(1, std::sync::atomic::Ordering::SeqCst);
            let resp = if line == "<disconnect>" {
                // what every transport does at connection end
                let c = &mut sess.client;
                let r = std::panic::catch_unwind(std::panic::AssertUnwindSafe(|| {
                    let r = nundb::process_request::process_request("unwatch-all", &dbs, c);
                    c.left(&dbs);
                    r
                }));
                match r {
                    Ok(r) => resp_str(&r),
                    Err(e) => format!("PANIC({})", panic_msg(&e)),
                }
            } else {
                let c = &mut sess.client;
                match std::panic::catch_unwind(std::panic::AssertUnwindSafe(|| nundb::process_request::process_request(line, &dbs, c))) {
                    Ok(r) => resp_str(&r),
                    Err(e) => format!("PANIC({})", panic_msg(&e)),
                }
            };
            let ret = sched.seq.fetch_add(1, std::sync::atomic::Ordering::SeqCst);
            let msgs = sess.drain();
            out.push(OpRec { tid, idx, line: line.clone(), resp, msgs, call, ret, ticks: crate::ilv::take_ticks() });
        }
        (out, sess)
    })
}

struct Judged {
    clause: String,
    detail: String,
}

fn judge(sc: &Scenario, ops: &[OpRec], sub_msgs: &[String], probe: &[(String, bool, Vec<String>)], final_vals: &std::collections::BTreeMap<String, String>) -> Option<Judged> {
    let inf = u64::MAX;
    for key in sc.sub_keys.iter() {
        let init_watch = sc.setup.session_init[0].iter().any(|l| l == &format!("watch {}", key));
        let sub_ops: Vec<&OpRec> = ops.iter().filter(|o| o.tid == 0).collect();
        let watch = sub_ops.iter().find(|o| o.line == format!("watch {}", key));
        let (w_call, w_ret) = if init_watch { (0, 0) } else { watch.map(|o| (o.call + 1, o.ret + 1)).unwrap_or((inf, inf)) };
        let unsub = sub_ops.iter().find(|o| (o.line == format!("unwatch {}", key) || o.line == "unwatch-all" || o.line == "<disconnect>") && o.call + 1 > w_call);
        let (u_call, u_ret) = unsub.map(|o| (o.call + 1, o.ret + 1)).unwrap_or((inf, inf));
        // classify the writes on this key
        let mut removed_must = 0i64;
        let mut removed_may = 0i64;
        let mut inc_must = 0i64;
        let mut inc_may = 0i64;
        // value -> (must be notified, may be notified, accepted outside the subscription, refused, the writes)
        let mut per_value: std::collections::BTreeMap<String, (i64, i64, i64, i64, Vec<String>)> = Default::default();
        for o in ops.iter() {
            // a write arriving over a replication link is a mutation like any other
            let norm: String = {
                let mut t: Vec<&str> = o.line.split(' ').collect();
                if t.first() == Some(&"rp") && t.len() > 2 {
                    t.drain(0..2);
                }
                match t.first().copied() {
                    Some("replicate") if t.len() >= 5 => format!("set {} {}", t[2], t[4..].join(" ")),
                    Some("replicate-remove") if t.len() >= 3 => format!("remove {}", t[2]),
                    Some("replicate-increment") if t.len() >= 3 => format!("increment {}", t[2]),
                    _ => o.line.clone(),
                }
            };
            let mut p = norm.split(' ');
            let cmd = p.next().unwrap_or("");
            if p.next() != Some(*key) {
                continue;
            }
            let ok = o.resp == "Ok";
            let (c, r) = (o.call + 1, o.ret + 1);
            let must = ok && c > w_ret && r < u_call;
            let may = ok && !must && c < u_ret && r > w_call;
            match cmd {
                "set" | "set-safe" => {
                    // writes are tallied per value: two writes may carry the same value
                    let val = o.line.rsplit(' ').next().unwrap().to_string();
                    let e = per_value.entry(val).or_insert((0i64, 0i64, 0i64, 0i64, vec![]));
                    e.0 += must as i64;
                    e.1 += may as i64;
                    e.2 += (ok && !must && !may) as i64;
                    e.3 += (!ok) as i64;
                    e.4.push(format!("`{}` [{}..{}] -> {}", o.line, c, r, o.resp));
                }
                "remove" => {
                    removed_must += must as i64;
                    removed_may += may as i64;
                }
                "increment" => {
                    inc_must += must as i64;
                    inc_may += may as i64;
                }
                _ => {}
            }
        }
        for (val, (must, may, _outside, refused, writes)) in per_value.iter() {
            let n_changed = sub_msgs.iter().filter(|m| **m == format!("changed {} {}\n", key, val)).count() as i64;
            let n_ver = sub_msgs.iter().filter(|m| m.starts_with(&format!("changed-version {} ", key)) && m.ends_with(&format!(" {}\n", val))).count() as i64;
            let ctx = format!("writes of {:?}: {:?}; subscription: watch returned {}, unsubscribe began {}; stream {:?}", val, writes, w_ret, u_call, sub_msgs);
            if n_changed != n_ver {
                return Some(Judged { clause: "unpaired-notification".into(), detail: format!("{} changed vs {} changed-version lines; {}", n_changed, n_ver, ctx) });
            }
            if *must + *may == 0 && n_changed > 0 {
                return Some(Judged { clause: if *refused > 0 && *_outside == 0 { "notified-refused-write".into() } else { "notified-outside-subscription".into() }, detail: format!("notified {} times; {}", n_changed, ctx) });
            }
            if n_changed < *must {
                return Some(Judged { clause: "missed-notification".into(), detail: format!("{} write(s) committed while subscribed but {} notification(s); {}", must, n_changed, ctx) });
            }
            if n_changed > *must + *may {
                return Some(Judged { clause: "duplicate-notification".into(), detail: format!("at most {} write(s) could be notified but {} notification(s); {}", must + may, n_changed, ctx) });
            }
        }
        let n_removed = sub_msgs.iter().filter(|m| **m == format!("removed {}\n", key)).count() as i64;
        if n_removed < removed_must || n_removed > removed_must + removed_may {
            return Some(Judged { clause: if n_removed < removed_must { "missed-notification".into() } else { "duplicate-notification".into() }, detail: format!("{} removed-notifications for {}, expected between {} and {}; stream {:?}", n_removed, key, removed_must, removed_must + removed_may, sub_msgs) });
        }
        let n_inc = sub_msgs.iter().filter(|m| m.starts_with(&format!("changed {} ", key)) && m.trim_end().rsplit(' ').next().map(|v| v.parse::<i64>().is_ok() && v != "0").unwrap_or(false)).count() as i64;
        if n_inc < inc_must || n_inc > inc_must + inc_may {
            return Some(Judged { clause: if n_inc < inc_must { "missed-notification".into() } else { "duplicate-notification".into() }, detail: format!("{} increment notifications for {}, expected between {} and {}; stream {:?}", n_inc, key, inc_must, inc_must + inc_may, sub_msgs) });
        }
        // (5) highest-versioned notification carries the current value (keys written only by set/set-safe)
        let only_sets = ops.iter().all(|o| !(o.line.starts_with(&format!("remove {}", key)) || o.line.starts_with(&format!("increment {}", key)) || o.line.starts_with(&format!("replicate-remove t {}", key)) || o.line.starts_with(&format!("replicate-increment t {}", key)) || (o.line.starts_with("rp ") && (o.line.contains("replicate-remove") || o.line.contains("replicate-increment")))));
        if only_sets && u_call == inf && w_ret == 0 {
            let mut best: Option<(i32, String)> = None;
            for m in sub_msgs.iter() {
                if let Some(rest) = m.strip_prefix(&format!("changed-version {} ", key)) {
                    let mut it = rest.trim_end_matches('\n').splitn(2, ' ');
                    if let (Some(v), Some(val)) = (it.next().and_then(|x| x.parse::<i32>().ok()), it.next()) {
                        if best.as_ref().map(|b| v >= b.0).unwrap_or(true) {
                            best = Some((v, val.to_string()));
                        }
                    }
                }
            }
            if let (Some((ver, val)), Some(cur)) = (best, final_vals.get(*key)) {
                if &val != cur {
                    return Some(Judged { clause: "stale-final-view".into(), detail: format!("highest-versioned notification for {} is v{} {:?} but the key now holds {:?}; stream {:?}", key, ver, val, cur, sub_msgs) });
                }
            }
        }
    }
    // nothing about keys the subscriber does not watch
    for m in sub_msgs.iter() {
        for pre in ["changed ", "changed-version ", "removed "] {
            if let Some(rest) = m.strip_prefix(pre) {
                let k = rest.split(|c| c == ' ' || c == '\n').next().unwrap_or("");
                if !sc.sub_keys.contains(&k) {
                    return Some(Judged { clause: "notified-unwatched-key".into(), detail: format!("subscriber of {:?} received {:?}", sc.sub_keys, m) });
                }
            }
        }
    }
    // (4) the probe write after everything: delivered iff the subscriber never unsubscribed
    for (key, expect, got) in probe.iter() {
        let hit = got.iter().any(|m| *m == format!("changed {} probe\n", key));
        if *expect && !hit {
            return Some(Judged { clause: "subscription-lost".into(), detail: format!("subscriber is still subscribed to {} (never unsubscribed) but a later write was not delivered: {:?}", key, got) });
        }
        if !*expect && hit {
            return Some(Judged { clause: "notified-after-unsubscribe".into(), detail: format!("subscriber unsubscribed from {} but a later write was delivered: {:?}", key, got) });
        }
    }
    None
}

pub fn explore_scenario(sc: &Scenario, bound: usize, max_exec: u64, budget: Duration) -> (IlvStats, Vec<Violation>, usize) {
    let mut found: Vec<Violation> = vec![];
    let mut seen: BTreeSet<String> = BTreeSet::new();
    let mut streams: BTreeSet<Vec<String>> = BTreeSet::new();
    let shape = format!("{}: {}", sc.name, sc.programs.iter().enumerate().map(|(i, p)| format!("S{}=[{}]", i, p.join(" ; "))).collect::<Vec<_>>().join(" "));
    let mut mk = || {
        let (w, sessions) = build(&sc.setup);
        let ctx = w.node.ctx.clone();
        let bodies: Vec<Box<dyn FnOnce(&std::sync::Arc<Sched>) -> (Vec<OpRec>, Session) + Send>> =
            sessions.into_iter().enumerate().map(|(tid, s)| body3(w.node.dbs.clone(), s, tid, sc.programs[tid].clone())).collect();
        (w, ctx, bodies)
    };
    let mut check = |mut w: CWorld, x: &Execution<(Vec<OpRec>, Session)>, choices: &[usize]| {
        let schedule: Vec<String> = x.points.iter().map(|p| p.what.clone()).collect();
        let mut push = |clause: String, detail: String| {
            if seen.insert(clause.clone()) {
                found.push(Violation { clause, shape: shape.clone(), detail, replay: json!({"engine":"ilv","property":"C03","scenario":sc.name,"programs":sc.programs,"choices":choices,"schedule":schedule}) });
            }
        };
        if let Some(d) = &x.deadlock {
            push("deadlock".into(), d.clone());
            return;
        }
        let mut ops: Vec<OpRec> = vec![];
        let mut sub_sess: Option<Session> = None;
        // results are consumed by reference: rebuild what we need
        let mut sub_msgs: Vec<String> = vec![];
        for (tid, r) in x.results.iter().enumerate() {
            match r {
                Some((v, _)) => {
                    if tid == 0 {
                        for o in v.iter() {
                            sub_msgs.extend(o.msgs.iter().cloned());
                        }
                    }
                    ops.extend(v.iter().cloned());
                }
                None => {
                    push("thread-panic".into(), "client thread panicked".into());
                    w.node.remove_dir();
                    return;
                }
            }
        }
        let _ = &mut sub_sess;
        if ops.iter().any(|o| o.resp.starts_with("PANIC")) {
            push("handler-panic".into(), format!("{:?}", ops.iter().filter(|o| o.resp.starts_with("PANIC")).collect::<Vec<_>>()));
            w.node.remove_dir();
            return;
        }
        // drain what arrived for the subscriber after its last command: the receiver lives in the
        // returned session, which we only have by reference -> use the channel through a probe below
        w.node.ctx.install();
        // messages still queued for session 0
        let tail = drain_ref(x, 0);
        sub_msgs.extend(tail);
        let mut final_vals = std::collections::BTreeMap::new();
        for (k, v) in final_view(&w.node, "t") {
            final_vals.insert(k, v.0);
        }
        // probe writes
        let mut probe = vec![];
        for key in sc.sub_keys.iter() {
            let init_watch = sc.setup.session_init[0].iter().any(|l| l == &format!("watch {}", key));
            let watched = init_watch || ops.iter().any(|o| o.tid == 0 && o.line == format!("watch {}", key) && o.resp == "Ok");
            let unsub = ops.iter().any(|o| o.tid == 0 && (o.line == format!("unwatch {}", key) || o.line == "unwatch-all" || o.line == "<disconnect>"));
            if watched {
                w.admin.exec(&w.node, &format!("set {} probe", key));
                let got = drain_ref(x, 0);
                probe.push((key.to_string(), !unsub, got));
            }
        }
        streams.insert(sub_msgs.clone());
        if let Some(j) = judge(sc, &ops, &sub_msgs, &probe, &final_vals) {
            push(j.clause, format!("{} || ops {:?}", j.detail, ops.iter().map(|o| format!("s{} `{}`->{} [{}..{}]", o.tid, o.line, o.resp, o.call + 1, o.ret + 1)).collect::<Vec<_>>()));
        }
        w.node.remove_dir();
    };
    let st = match explore(bound, max_exec, budget, &mut mk, &mut check) {
        Ok(s) => s,
        Err(RunError::Hang(m)) => {
            eprintln!("machinery: ILV {}: {}", shape, m);
            std::process::exit(2);
        }
    };
    (st, found, streams.len())
}

/// drain the receiver of session `tid` held inside the execution results
fn drain_ref(x: &Execution<(Vec<OpRec>, Session)>, tid: usize) -> Vec<String> {
    // Receiver::try_next needs &mut; the results are only borrowed, so go through a raw pointer
    // to the session we exclusively own for the rest of this execution (threads are joined).
    let mut out = vec![];
    if let Some(Some((_, s))) = x.results.get(tid) {
        let p = s as *const Session as *mut Session;
        unsafe {
            while let Ok(Some(m)) = (*p).rx.try_next() {
                out.push(m);
            }
        }
    }
    out
}

pub fn run(run: &mut Run) {
    let quick = run.quick();
    let scs = scenarios(quick);
    let bound = if quick { 2 } else { 3 };
    let idx = std::sync::atomic::AtomicUsize::new(0);
    let results: std::sync::Mutex<Vec<(String, IlvStats, Vec<Violation>, usize)>> = std::sync::Mutex::new(vec![]);
    let workers = match crate::util::workers() {
        0 => std::thread::available_parallelism().map(|n| n.get()).unwrap_or(4),
        n => n,
    };
    std::thread::scope(|s| {
        for _ in 0..workers.min(scs.len()) {
            s.spawn(|| loop {
                let i = idx.fetch_add(1, std::sync::atomic::Ordering::SeqCst);
                if i >= scs.len() {
                    break;
                }
                let (st, vs, streams) = explore_scenario(&scs[i], bound, 400_000, Duration::from_secs(if quick { 30 } else { 600 }));
                results.lock().unwrap().push((format!("{} {:?}", scs[i].name, scs[i].programs), st, vs, streams));
            });
        }
    });
    let mut capped = 0;
    let mut per = vec![];
    for (name, st, vs, streams) in results.into_inner().unwrap() {
        run.cov_add("ilv_executions", st.executions);
        run.cov_add("ilv_scheduling_points", st.points);
        run.cov_add("states", st.executions);
        run.cov_add("transitions", st.points);
        run.cov_add("traces_validated_against_impl", st.executions);
        if st.capped.is_some() {
            capped += 1;
        }
        per.push(json!({"scenario": name, "executions": st.executions, "distinct_subscriber_streams": streams, "capped": st.capped}));
        for v in vs {
            run.violate(v);
        }
    }
    per.sort_by_key(|p| p["scenario"].as_str().unwrap_or("").to_string());
    run.sample(per[0].clone());
    run.cov("scenarios", json!(per));
    run.cov("preemption_bound", json!(bound));
    run.cov("ilv_configs_capped", json!(capped));
    run.cov("exhaustive", json!(capped == 0));
    run.assume("a notification counts as belonging to a write through the write's unique value; increments and removes are counted");
    run.assume("writes that overlap the watch/unsubscribe call itself may or may not be notified (0 or 1 times)");
    run.assume("notification loss through a full 100-slot client channel is outside the bound (needs > 100 queued messages)");
    super::c03_seq::run(run);
}
