//! Shared pieces of the interleaving (ILV) drivers: a world with N client sessions on one real
//! database, thread bodies running command programs, and the brute-force linearizability oracle
//! that uses the implementation itself, run sequentially, as the reference.
use crate::ilv::*;
use crate::world::*;
use nundb::bo::*;
use std::collections::{BTreeMap, BTreeSet};
use std::sync::atomic::Ordering;
use std::sync::Arc;

#[derive(Clone, Debug, PartialEq, Eq, Hash, PartialOrd, Ord)]
pub struct OpRec {
    pub tid: usize,
    pub idx: usize,
    pub line: String,
    pub resp: String,
    pub msgs: Vec<String>,
    pub call: u64,
    pub ret: u64,
    /// logical clock values the command drew while it ran (the first one is when its change was created)
    pub ticks: Vec<u64>,
}

pub struct CWorld {
    pub node: Node,
    pub admin: Session,
    /// sessions that do not run a thread (e.g. a watcher observing the others)
    pub spectators: Vec<Session>,
}

/// pseudo command: what the declutter timer thread does - carry out the queued snapshots
pub const RUN_SNAPSHOT: &str = "<run-snapshot-queue>";

pub type FinalView = BTreeMap<String, (String, i32, u8)>;

/// client-visible final state: live keys with the value and version get-safe reports
/// (tombstones and persistence flags are not observable and are left out)
pub fn final_view(node: &Node, db: &str) -> FinalView {
    with_db(&node.dbs, db, |d| {
        dump_db(d)
            .into_iter()
            .filter(|(_, v)| v.state != ValueStatus::Deleted as u8)
            .map(|(k, v)| (k, (v.value, v.version, 0u8)))
            .collect()
    })
    .unwrap_or_default()
}

pub struct Setup {
    pub strategy: &'static str,
    /// admin commands run (with db t selected) before the sessions are opened
    pub init: Vec<String>,
    /// per session: lines executed sequentially before the threads start (e.g. use-db, watch)
    pub session_init: Vec<Vec<String>>,
    /// after every execution, feed what the node queued for its secondaries, in queue order, to a
    /// fresh replica built the same way, and compare the two nodes (C04, C19)
    pub check_replica: bool,
}

/// A secondary that receives `stream` (the primary's replication queue, FIFO) over one link.
pub fn replica_view(setup: &Setup, stream: &[String]) -> FinalView {
    let (w, _sessions) = build(setup);
    let mut link = Session::new();
    link.exec(&w.node, &format!("auth {} {}", USER, PWD));
    // the way a primary introduces itself on a replication link; the node becomes a secondary
    link.exec(&w.node, "set-primary primary:1");
    for (i, m) in stream.iter().enumerate() {
        link.exec(&w.node, &format!("rp {} {}", 9000 + i, m));
    }
    let v = final_view(&w.node, "t");
    w.node.remove_dir();
    v
}

pub fn build(setup: &Setup) -> (CWorld, Vec<Session>) {
    let node = Node::new_single("ilv");
    let mut admin = Session::new();
    admin.exec(&node, &format!("auth {} {}", USER, PWD));
    let o = admin.exec(&node, &format!("create-db t tok {}", setup.strategy));
    assert_eq!(o.resp, "Ok");
    admin.exec(&node, "use-db t tok");
    for l in setup.init.iter() {
        if l == RUN_SNAPSHOT {
            node.run_snapshot_queue();
        } else {
            admin.exec(&node, l);
        }
    }
    let mut sessions = vec![];
    for init in setup.session_init.iter() {
        let mut s = Session::new();
        for l in init {
            s.exec(&node, l);
        }
        sessions.push(s);
    }
    let mut w = CWorld { node, admin, spectators: vec![] };
    w.node.drain_queues();
    (w, sessions)
}

/// thread body: run the program's lines through the real process_request, recording call/return
pub fn body(dbs: Arc<Databases>, mut sess: Session, tid: usize, program: Vec<String>) -> Box<dyn FnOnce(&Arc<Sched>) -> (Vec<OpRec>, Session) + Send> {
    Box::new(move |sched: &Arc<Sched>| {
        let mut out = vec![];
        for (idx, line) in program.iter().enumerate() {
            let call = sched.seq.fetch_add(1, Ordering::SeqCst);
            let _ = take_ticks();
            let client = &mut sess.client;
            let r = std::panic::catch_unwind(std::panic::AssertUnwindSafe(|| match line.strip_prefix("direct-set ") {
                // `direct-set <key> <version> <value>`: the write path below the command layer
                // (db_ops::set_key_value on database t), whose reply names the value now stored
                Some(rest) => {
                    let mut it = rest.splitn(3, ' ');
                    let (k, ver, val) = (it.next().unwrap_or("").to_string(), it.next().and_then(|v| v.parse::<i32>().ok()).unwrap_or(-1), it.next().unwrap_or("").to_string());
                    with_db(&dbs, "t", |d| nundb::db_ops::set_key_value(k, val, ver, d, &dbs)).unwrap_or(Response::Error { msg: "no database t".into() })
                }
                None if line == RUN_SNAPSHOT => {
                    nundb::disk_ops::snapshot_all_pendding_dbs(&dbs);
                    Response::Ok {}
                }
                None => nundb::process_request::process_request(line, &dbs, client),
            }));
            let ret = sched.seq.fetch_add(1, Ordering::SeqCst);
            let resp = match r {
                Ok(r) => resp_str(&r),
                Err(e) => format!("PANIC({})", panic_msg(&e)),
            };
            let msgs = sess.drain();
            out.push(OpRec { tid, idx, line: line.clone(), resp, msgs, call, ret, ticks: take_ticks() });
        }
        (out, sess)
    })
}

/// all merges of the programs (program order kept)
pub fn merges(lens: &[usize]) -> Vec<Vec<(usize, usize)>> {
    fn rec(pos: &mut Vec<usize>, lens: &[usize], cur: &mut Vec<(usize, usize)>, out: &mut Vec<Vec<(usize, usize)>>) {
        if cur.len() == lens.iter().sum::<usize>() {
            out.push(cur.clone());
            return;
        }
        for t in 0..lens.len() {
            if pos[t] < lens[t] {
                cur.push((t, pos[t]));
                pos[t] += 1;
                rec(pos, lens, cur, out);
                pos[t] -= 1;
                cur.pop();
            }
        }
    }
    let mut out = vec![];
    rec(&mut vec![0; lens.len()], lens, &mut vec![], &mut out);
    out
}

#[derive(Clone, Debug, PartialEq, Eq, Hash, PartialOrd, Ord)]
pub struct Outcome {
    /// per (tid, idx): (resp, msgs)
    pub replies: BTreeMap<(usize, usize), (String, Vec<String>)>,
    pub fin: FinalView,
}

/// every sequential order of the programs run on a fresh real world: order -> outcome
pub fn sequential_outcomes(setup: &Setup, programs: &[Vec<String>]) -> Vec<(Vec<(usize, usize)>, Outcome)> {
    let lens: Vec<usize> = programs.iter().map(|p| p.len()).collect();
    let mut out = vec![];
    for order in merges(&lens) {
        let (w, mut sessions) = build(setup);
        let mut replies = BTreeMap::new();
        for (t, i) in order.iter() {
            if programs[*t][*i] == RUN_SNAPSHOT {
                w.node.run_snapshot_queue();
                replies.insert((*t, *i), ("Ok".to_string(), vec![]));
                continue;
            }
            let o = sessions[*t].exec(&w.node, &programs[*t][*i]);
            replies.insert((*t, *i), (o.resp, o.msgs));
        }
        let fin = final_view(&w.node, "t");
        w.node.remove_dir();
        out.push((order, Outcome { replies, fin }));
    }
    out
}

/// is there a sequential order, consistent with real-time precedence, with the same outcome?
pub fn linearizable(seq: &[(Vec<(usize, usize)>, Outcome)], ops: &[OpRec], fin: &FinalView) -> bool {
    let got = Outcome { replies: ops.iter().map(|o| ((o.tid, o.idx), (o.resp.clone(), o.msgs.clone()))).collect(), fin: fin.clone() };
    let time: BTreeMap<(usize, usize), (u64, u64)> = ops.iter().map(|o| ((o.tid, o.idx), (o.call, o.ret))).collect();
    seq.iter().any(|(order, oc)| {
        if *oc != got {
            return false;
        }
        // real-time: if a returned before b was called, a must precede b
        for (i, a) in order.iter().enumerate() {
            for b in order[..i].iter() {
                // b is placed before a: forbidden if a returned before b was called
                if time[a].1 < time[b].0 {
                    return false;
                }
            }
        }
        true
    })
}

pub fn distinct_outcomes(seq: &[(Vec<(usize, usize)>, Outcome)]) -> usize {
    seq.iter().map(|(_, o)| o.clone()).collect::<BTreeSet<_>>().len()
}
