//! C05 — a (re)joining node resynchronises to exactly the primary's data.
//! Histories on the primary split into before-departure / while-away, joiner with an empty
//! disk, a stale snapshot or a valid oplog; the exchange runs through the real join path,
//! replicate-since handler, supervisor, oplog query and the joiner's real parser and handlers.
use crate::net::*;
use crate::report::{Run, Violation};
use crate::world::*;
use serde_json::json;
use std::collections::BTreeMap;

#[derive(Clone, Debug, PartialEq)]
pub enum Op {
    CreateDb(&'static str, &'static str),
    Set(&'static str, &'static str, &'static str),
    Remove(&'static str, &'static str),
    Inc(&'static str, &'static str),
    Snapshot(&'static str),
    /// a space-reclaiming snapshot (it drops the tombstones of removed keys from memory)
    SnapshotReclaim(&'static str),
}

pub fn op_name(o: &Op) -> String {
    match o {
        Op::CreateDb(d, s) => format!("create-db {} ({})", d, s),
        Op::Set(d, k, v) => format!("set {}.{}={:?}", d, k, v),
        Op::Remove(d, k) => format!("remove {}.{}", d, k),
        Op::Inc(d, k) => format!("increment {}.{}", d, k),
        Op::Snapshot(d) => format!("snapshot {}", d),
        Op::SnapshotReclaim(d) => format!("reclaiming snapshot {}", d),
    }
}

pub fn exec_op(w: &mut NetWorld, o: &Op) -> Result<(), String> {
    let mut lines: Vec<String> = vec![format!("auth {} {}", USER, PWD)];
    match o {
        Op::CreateDb(d, s) => lines.push(format!("create-db {} tok-{} {}", d, d, s)),
        Op::Set(d, k, v) => {
            lines.push(format!("use-db {} tok-{}", d, d));
            lines.push(format!("set {} {}", k, v));
        }
        Op::Remove(d, k) => {
            lines.push(format!("use-db {} tok-{}", d, d));
            lines.push(format!("remove {}", k));
        }
        Op::Inc(d, k) => {
            lines.push(format!("use-db {} tok-{}", d, d));
            lines.push(format!("increment {}", k));
        }
        Op::Snapshot(d) => lines.push(format!("snapshot false {}", d)),
        Op::SnapshotReclaim(d) => lines.push(format!("snapshot true {}", d)),
    }
    lines.push("<eof>".into());
    let refs: Vec<&str> = lines.iter().map(|s| s.as_str()).collect();
    w.add_client(0, &refs, true);
    w.run_to_quiescence(20000)?;
    w.clients.clear();
    if let Op::Snapshot(_) | Op::SnapshotReclaim(_) = o {
        w.run_snapshot_queues();
    }
    Ok(())
}

#[derive(Clone, Copy, Debug, PartialEq)]
pub enum Joiner {
    /// never seen before: empty directory
    EmptyDisk,
    /// restarts from what it had on disk (snapshot and, if still valid, its oplog)
    FromDisk,
}

/// per database: (token, strategy, live keys -> (value, version))
pub type View = BTreeMap<String, (Option<String>, i32, BTreeMap<String, (String, i32)>)>;

fn view(w: &NetWorld, i: usize) -> View {
    let dbs = &w.nodes[i].node.dbs;
    let m = dbs.map.read().unwrap();
    m.iter()
        .filter(|(n, _)| n.as_str() != "$admin")
        .map(|(n, db)| {
            let d = dump_db(db);
            let token = d.get("$$token").map(|t| t.value.clone());
            let keys = d
                .into_iter()
                .filter(|(k, v)| v.state != nundb::bo::ValueStatus::Deleted as u8 && k != "$connections" && k != "$$token")
                .map(|(k, v)| (k, (v.value, v.version)))
                .collect();
            (n.clone(), (token, db.metadata.consensus_strategy as i32, keys))
        })
        .collect()
}

pub struct Case {
    pub before: Vec<Op>,
    pub away: Vec<Op>,
    pub joiner: Joiner,
}

impl Case {
    pub fn name(&self) -> String {
        format!("before [{}] | away [{}] | joiner {:?}", self.before.iter().map(op_name).collect::<Vec<_>>().join(" ; "), self.away.iter().map(op_name).collect::<Vec<_>>().join(" ; "), self.joiner)
    }
}

/// returns findings (clause, canonical kind, detail)
/// where the last write of (db, key) sits in the case: this separates a joiner that lost the tail
/// it had only in memory (known finding) from data that changed while it was away
fn provenance(c: &Case, db: &str, key: &str) -> &'static str {
    let touches = |o: &Op| match o {
        Op::Set(d, k, _) | Op::Remove(d, k) | Op::Inc(d, k) => *d == db && *k == key,
        _ => false,
    };
    if c.away.iter().any(touches) {
        return "changed while the joiner was away";
    }
    match c.before.iter().rposition(touches) {
        None => "never written",
        Some(i) => {
            if c.before[i + 1..].iter().any(|o| matches!(o, Op::Snapshot(d) | Op::SnapshotReclaim(d) if *d == db)) {
                "snapshotted before the joiner left"
            } else {
                "in the tail the joiner held only in memory"
            }
        }
    }
}

pub fn run_case(c: &Case) -> Result<Vec<(String, String, String)>, String> {
    let mut w = settled_cluster_clocked(2, true)?;
    let mut out = vec![];
    let r = (|| -> Result<(), String> {
        for o in c.before.iter() {
            exec_op(&mut w, o)?;
        }
        // n2 leaves
        w.kill_node(1)?;
        w.run_to_quiescence(20000)?;
        for o in c.away.iter() {
            exec_op(&mut w, o)?;
        }
        // and comes back
        match w.restart_node(1, c.joiner == Joiner::EmptyDisk, 200) {
            Ok(_) => {}
            Err(e) => {
                out.push(("joiner-startup-failed".to_string(), "start-up panic".to_string(), e));
                return Ok(());
            }
        }
        w.join_cluster(1)?;
        w.run_to_quiescence(50000)?;
        for (clause, detail) in w.problems.drain(..) {
            out.push((clause.clone(), clause, detail));
        }
        if w.role(0) != nundb::bo::ClusterRole::Primary || w.role(1) != nundb::bo::ClusterRole::Secoundary {
            out.push(("rejoin-did-not-settle".to_string(), "roles".to_string(), format!("after the rejoin n1 is {} and n2 is {}", w.role(0), w.role(1))));
            return Ok(());
        }
        let (p, j) = (view(&w, 0), view(&w, 1));
        out.extend(compare_views(c, &p, &j));
        Ok(())
    })();
    w.shutdown();
    r?;
    Ok(out)
}

/// joiner against primary, database by database (shared with the real-transport stage)
pub fn compare_views(c: &Case, p: &View, j: &View) -> Vec<(String, String, String)> {
    let mut out = vec![];
    for (db, (tok, strat, keys)) in p.iter() {
        match j.get(db) {
            None => {
                let when = if c.away.iter().any(|o| matches!(o, Op::CreateDb(d, _) if *d == db.as_str())) { "created while the joiner was away" } else { "created before the joiner left" };
                out.push(("database-missing-on-joiner".to_string(), format!("database missing ({})", when), format!("database {} of the primary does not exist on the joiner", db)))
            }
            Some((jtok, jstrat, jkeys)) => {
                if jtok != tok {
                    out.push(("database-token-differs".to_string(), "token".to_string(), format!("database {}: token {:?} on the primary, {:?} on the joiner", db, tok, jtok)));
                }
                if jstrat != strat {
                    out.push(("database-strategy-differs".to_string(), "strategy".to_string(), format!("database {}: strategy {} on the primary, {} on the joiner", db, strat, jstrat)));
                }
                for (k, (v, ver)) in keys.iter() {
                    match jkeys.get(k) {
                        None => out.push(("key-missing-on-joiner".to_string(), format!("key missing ({})", provenance(c, db, k)), format!("{}.{}={:?} (v{}) on the primary, absent on the joiner", db, k, v, ver))),
                        Some((jv, jver)) => {
                            if jv != v {
                                let base_kind = if v.contains(' ') { "value with spaces" } else if v.is_empty() { "empty value" } else if v.chars().next().map(|c| c.is_ascii_digit()).unwrap_or(false) { "numeric-first value" } else { "plain value" };
                                // the known format defect eats exactly the first word (the parser takes it for
                                // the version): anything else that happens to a value is a difference of its own
                                let minus_first_word = v.split_once(' ').map(|x| x.1.to_string()).unwrap_or_default();
                                let kind_s = if v.contains(' ') && *jv != minus_first_word { "multi-word value that lost more than its first word".to_string() } else { base_kind.to_string() };
                                let kind = kind_s.as_str();
                                out.push(("value-differs-on-joiner".to_string(), format!("{} ({})", kind, provenance(c, db, k)), format!("{}.{}: {:?} on the primary, {:?} on the joiner", db, k, v, jv)));
                            } else if jver != ver {
                                out.push(("version-differs-on-joiner".to_string(), format!("joiner {} by {}", if jver > ver { "ahead" } else { "behind" }, (jver - ver).abs()), format!("{}.{}={:?}: version {} on the primary, {} on the joiner", db, k, v, ver, jver)));
                            }
                        }
                    }
                }
                for (k, (jv, _)) in jkeys.iter() {
                    if !keys.contains_key(k) {
                        // a reclaiming snapshot on the primary after the remove drops the tombstone, the only
                        // thing a full sync could have told the joiner about
                        let all: Vec<&Op> = c.before.iter().chain(c.away.iter()).collect();
                        // the remove that made the key absent: the first one after the key was last written
                        let last_write = all.iter().rposition(|o| matches!(o, Op::Set(d, kk, _) | Op::Inc(d, kk) if *d == db.as_str() && *kk == k.as_str()));
                        let from = last_write.map(|i| i + 1).unwrap_or(0);
                        let first_rm = all[from..].iter().position(|o| matches!(o, Op::Remove(d, kk) if *d == db.as_str() && *kk == k.as_str())).map(|i| i + from);
                        let reclaimed = first_rm.map(|i| all[i + 1..].iter().any(|o| matches!(o, Op::SnapshotReclaim(d) if *d == db.as_str()))).unwrap_or(false);
                        out.push(("removed-key-still-on-joiner".to_string(), format!("removed key ({}{})", provenance(c, db, k), if reclaimed { ", tombstone reclaimed on the primary" } else { "" }), format!("{}.{} was removed on the primary, the joiner still has {:?}", db, k, jv)));
                    }
                }
            }
        }
    }
    out
}

pub fn cases(quick: bool) -> Vec<Case> {
    let vals: Vec<&'static str> = vec!["v", "two words", "7 up", "", "x  two   blanks "];
    let mut histories: Vec<Vec<Op>> = vec![];
    // every history starts by creating the database; then 1..n more operations
    let mut letters: Vec<Op> = vec![];
    for v in vals.iter() {
        letters.push(Op::Set("d1", "a", v));
    }
    letters.push(Op::Set("d1", "b", "v"));
    letters.push(Op::Remove("d1", "a"));
    letters.push(Op::Inc("d1", "n"));
    letters.push(Op::Snapshot("d1"));
    letters.push(Op::CreateDb("d2", "arbiter"));
    letters.push(Op::CreateDb("d3", "none"));
    let max = if quick { 2 } else { 3 };
    fn rec(cur: &mut Vec<Op>, letters: &[Op], max: usize, out: &mut Vec<Vec<Op>>) {
        if !cur.is_empty() {
            out.push(cur.clone());
        }
        if cur.len() == max {
            return;
        }
        for l in letters {
            if let Op::CreateDb(..) = l {
                if cur.contains(l) {
                    continue;
                }
            }
            cur.push(l.clone());
            rec(cur, letters, max, out);
            cur.pop();
        }
    }
    rec(&mut vec![], &letters, max, &mut histories);
    let mut out = vec![];
    // second family: start from a database that both nodes have already persisted, so that the
    // joiner really resynchronises from its disk and its oplog
    let mut histories2: Vec<Vec<Op>> = vec![];
    rec(&mut vec![], &letters, if quick { 2 } else { 3 }, &mut histories2);
    for h in histories2 {
        let prefix = vec![Op::CreateDb("d1", "none"), Op::Set("d1", "b", "v"), Op::Snapshot("d1")];
        for split in 0..=h.len() {
            let mut before = prefix.clone();
            before.extend(h[..split].iter().cloned());
            out.push(Case { before, away: h[split..].to_vec(), joiner: Joiner::FromDisk });
        }
    }
    // third family: the joiner has keys on its disk but its oplog is discarded at the restart (a
    // key it had never seen was written after its last snapshot), so it gets a FULL sync on top of
    // what its disk holds; everything of the history happens while it is away
    let mut histories3: Vec<Vec<Op>> = vec![];
    let mut letters3 = letters.clone();
    letters3.push(Op::SnapshotReclaim("d1"));
    rec(&mut vec![], &letters3, if quick { 2 } else { 3 }, &mut histories3);
    for h in histories3 {
        let before = vec![Op::CreateDb("d1", "none"), Op::Set("d1", "b", "v"), Op::Set("d1", "a", "v"), Op::Snapshot("d1"), Op::Inc("d1", "fresh")];
        out.push(Case { before, away: h, joiner: Joiner::FromDisk });
    }
    // fourth family: two databases that both nodes have persisted; while the joiner is away the
    // same key names are written in both (key identifiers are per name, not per database)
    let mut letters4: Vec<Op> = vec![Op::Set("d1", "a", "v"), Op::Set("d4", "a", "v"), Op::Set("d4", "b", "w"), Op::Remove("d1", "a"), Op::Remove("d4", "a"), Op::Inc("d4", "n"), Op::Snapshot("d4")];
    if !quick {
        letters4.push(Op::Inc("d1", "n"));
        letters4.push(Op::Set("d1", "b", "w"));
    }
    let mut histories4: Vec<Vec<Op>> = vec![];
    rec(&mut vec![], &letters4, if quick { 2 } else { 3 }, &mut histories4);
    for h in histories4 {
        let before = vec![Op::CreateDb("d1", "none"), Op::CreateDb("d4", "none"), Op::Set("d1", "b", "v"), Op::Set("d4", "b", "v"), Op::Snapshot("d1"), Op::Snapshot("d4")];
        out.push(Case { before, away: h, joiner: Joiner::FromDisk });
    }
    for h in histories {
        let mut full = vec![Op::CreateDb("d1", "none")];
        full.extend(h);
        for split in 0..=full.len() {
            for joiner in [Joiner::EmptyDisk, Joiner::FromDisk] {
                if joiner == Joiner::EmptyDisk && split != 0 && split != full.len() {
                    // an empty joiner has seen nothing: the split point does not matter to it;
                    // keep only "all while away" and "all before"
                    continue;
                }
                out.push(Case { before: full[..split].to_vec(), away: full[split..].to_vec(), joiner });
            }
        }
    }
    out
}

/// a write accepted by the primary while the joiner synchronises, under every delivery order
fn during_sync(run: &mut Run, quick: bool) {
    for joiner in [Joiner::EmptyDisk, Joiner::FromDisk] {
        let mk = || -> Result<NetWorld, String> {
            let mut w = settled_cluster_clocked(2, true)?;
            for o in [Op::CreateDb("d1", "none"), Op::Set("d1", "b", "v"), Op::Snapshot("d1")] {
                exec_op(&mut w, &o)?;
            }
            w.kill_node(1)?;
            w.run_to_quiescence(20000)?;
            exec_op(&mut w, &Op::Set("d1", "a", "v"))?;
            // the writer is connected and ready before the joiner comes back
            w.add_client(0, &[&format!("auth {} {}", USER, PWD), "use-db d1 tok-d1"], false);
            w.run_to_quiescence(20000)?;
            w.clients[0].script = vec!["set c during".to_string()].into();
            w.clients[0].done = false;
            w.restart_node(1, joiner == Joiner::EmptyDisk, 200)?;
            w.join_cluster(1)?;
            // the join / election part is C07's: run it with the fixed policy until the joiner's
            // replicate-since request is about to be answered, explore from there
            let mut n = 0;
            loop {
                let syncing = w.nodes[0].sup_q.iter().any(|m| m.starts_with("replicate-since-to")) || w.links.iter().any(|l| l.open && l.fwd.iter().any(|m| m.starts_with("replicate-since")));
                if syncing || n > 5000 {
                    break;
                }
                let en: Vec<T> = w.enabled(false);
                if en.is_empty() {
                    break;
                }
                w.apply(&en[0])?;
                n += 1;
            }
            w.problems.clear();
            Ok(w)
        };
        let none = |_: &NetWorld, _: &[T]| -> Vec<(String, String)> { vec![] };
        let onq = |w: &NetWorld, _: &[T]| -> Vec<(String, String)> {
            let mut out = vec![];
            if w.role(1) != nundb::bo::ClusterRole::Secoundary || w.role(0) != nundb::bo::ClusterRole::Primary {
                out.push(("rejoin-did-not-settle".to_string(), format!("roles; n1 {} n2 {}", w.role(0), w.role(1))));
                return out;
            }
            let (p, j) = (view(w, 0), view(w, 1));
            let on_p = p.get("d1").map(|d| d.2.contains_key("c")).unwrap_or(false);
            let on_j = j.get("d1").map(|d| d.2.contains_key("c")).unwrap_or(false);
            if on_p && !on_j {
                out.push(("write-during-sync-lost".to_string(), "a write accepted during the synchronisation; d1.c is on the primary and not on the joiner".to_string()));
            }
            out
        };
        // one thread, ascending number of deviations from the default schedule, capped by a state
        // count: the explored part is the same on every run whatever the load of the machine
        let cfg = NetCfg { max_states: if quick { 350 } else { 12000 }, max_path: 300, budget: std::time::Duration::from_secs(if quick { 300 } else { 3000 }), workers: 1, by_deviations: true };
        match explore_net(&mk, &none, &onq, &cfg) {
            Ok((st, findings)) => {
                run.cov_add("states", st.states);
                run.cov_add("transitions", st.transitions);
                run.cov_add("traces_validated_against_impl", st.replays);
                run.cov(&format!("during_sync_{:?}", joiner), json!({"states": st.states, "quiescent": st.quiescent_states, "cap": st.cap, "deviations_completed": st.deviations_completed}));
                let mut seen = std::collections::BTreeSet::new();
                for f in findings {
                    let shape = format!("during sync ({:?}): {}", joiner, f.detail.split(';').next().unwrap_or(""));
                    if seen.insert((f.clause.clone(), shape.clone())) {
                        run.violate(Violation { clause: f.clause, shape, detail: format!("{} ; delivery order {:?}", f.detail, path_str(&f.path)), replay: json!({"engine":"net","property":"C05","path":path_str(&f.path)}) });
                    }
                }
            }
            Err(e) => {
                eprintln!("machinery: C05 during-sync exploration failed: {}", e);
                std::process::exit(2);
            }
        }
    }
}

pub fn run(run: &mut Run) {
    crate::net::init_sleep_sites();
    let quick = run.quick();
    during_sync(run, quick);
    let cs = cases(quick);
    let deadline = std::time::Instant::now() + std::time::Duration::from_secs(if quick { 45 } else { 1500 });
    let idx = std::sync::atomic::AtomicUsize::new(0);
    let results: std::sync::Mutex<Vec<(usize, Result<Vec<(String, String, String)>, String>)>> = std::sync::Mutex::new(vec![]);
    let workers = match crate::util::workers() {
        0 => std::thread::available_parallelism().map(|n| n.get()).unwrap_or(4),
        n => n,
    };
    std::thread::scope(|s| {
        for _ in 0..workers {
            s.spawn(|| loop {
                let i = idx.fetch_add(1, std::sync::atomic::Ordering::SeqCst);
                if i >= cs.len() || std::time::Instant::now() > deadline {
                    break;
                }
                let r = run_case(&cs[i]);
                results.lock().unwrap().push((i, r));
            });
        }
    });
    let res = results.into_inner().unwrap();
    let done = res.len();
    let mut steps = 0u64;
    for (i, r) in res {
        match r {
            Err(e) => {
                eprintln!("machinery: C05 case `{}` failed: {}", cs[i].name(), e);
                std::process::exit(2);
            }
            Ok(fs) => {
                steps += 1;
                let mode = if cs[i].joiner == Joiner::EmptyDisk || cs[i].before.is_empty() { "full sync" } else { "resync from disk" };
                let mut seen = std::collections::BTreeSet::new();
                for (clause, kind, detail) in fs {
                    let shape = format!("{}: {}", mode, kind);
                    if seen.insert((clause.clone(), shape.clone())) {
                        run.violate(Violation { clause, shape, detail: format!("{} || case {}", detail, cs[i].name()), replay: json!({"engine":"c05","case":cs[i].name()}) });
                    }
                }
            }
        }
    }
    real_transport_stage(run);
    run.cov("cases", json!(cs.len()));
    run.cov("cases_run", json!(done));
    run.cov_add("states", done as u64);
    run.cov_add("transitions", steps);
    run.cov_add("traces_validated_against_impl", done as u64);
    let sync_capped = run.coverage.iter().any(|(k, v)| k.starts_with("during_sync_") && !v["cap"].is_null());
    run.cov("exhaustive", json!(done == cs.len() && !sync_capped));
    run.sample(json!(cs[cs.len() / 2].name()));
    run.assume("all nodes read one logical clock (synchronised wall clocks), because the catch-up protocol compares the joiner's last op time with the primary's record times");
    run.assume("the exchange is run with a fixed FIFO delivery policy (the quantifier of C05 is over histories, split points and joiner disks; delivery orders are C04's)");
    run.assume("joiner start-up = world::Node::start (mirrors main.rs); join = the short `join` connection of ask_to_join_all_replicas + start_inital_election");
}

/// One case on real node processes over TCP (wire.rs): the joiner is killed, the primary goes on,
/// the joiner restarts from its directory and resynchronises. The link transcripts of both lives
/// must equal the model's (conformance of the link model and of the start-up mirror), and the
/// joiner must serve the primary's data.
fn real_transport_stage(run: &mut Run) {
    let out = match crate::wire::rejoin_stage() {
        Ok(o) => o,
        Err(e) => {
            eprintln!("machinery: real-transport stage: {}", e);
            std::process::exit(2);
        }
    };
    let mut seen = std::collections::BTreeSet::new();
    for (clause, kind, detail) in out.findings.iter() {
        let shape = format!("resync from disk: {}", kind);
        if seen.insert((clause.clone(), shape.clone())) {
            run.violate(Violation { clause: clause.clone(), shape, detail: format!("real cluster (2 node processes over TCP, joiner killed and restarted): {} || case {}", detail, out.case.name()), replay: json!({"engine":"wire","case":out.case.name()}) });
        }
    }
    if !out.conf.differences.is_empty() {
        eprintln!("machinery: the NET engine's model of a rejoin does not conform to the real transport ({} real runs):", out.real_runs);
        for d in out.conf.differences.iter() {
            eprintln!("  {}", d);
        }
        std::process::exit(2);
    }
    run.cov_add("traces_validated_against_impl", out.conf.links_compared as u64);
    run.cov(
        "link_model_conformance",
        json!({
            "case": out.case.name(),
            "real_node_processes": 2,
            "replication_links_compared": out.conf.links_compared,
            "lines_compared": out.conf.lines_compared,
            "differences": out.conf.differences,
            "real_runs_needed": out.real_runs,
            "real_wall_ms": out.real_wall_ms as u64,
            "what": "the case is run on real node processes (mirror of main.rs::start_db incl. the declutter timer; SIGKILL, restart from the same directory, real replicate-since exchange over TCP behind logging proxies) and on the NET model; per connection and direction the line sequences of both lives of the joiner must be identical after renaming addresses, op ids and times (catch-up commands of one database, which are sent in hash-map order, as sorted blocks); the joiner's data as served to an administrator is judged with the same comparison as the model cases",
        }),
    );
    run.assume("real-transport stage: one schedule of the real system (the operating system's)");
}

/// `./check replay <file>` for a C05 case: the case is run again and the messages exchanged from
/// the moment the joiner comes back are printed together with both nodes' views.
pub fn replay_case(name: &str) -> i32 {
    crate::net::init_sleep_sites();
    let c = match cases(false).into_iter().chain(cases(true)).find(|c| c.name() == name) {
        Some(c) => c,
        None => {
            eprintln!("unknown C05 case {:?}", name);
            return 2;
        }
    };
    let mut w = match settled_cluster_clocked(2, true) {
        Ok(w) => w,
        Err(e) => {
            eprintln!("machinery: {}", e);
            return 2;
        }
    };
    let r = (|| -> Result<(), String> {
        for o in c.before.iter() {
            exec_op(&mut w, o)?;
        }
        w.kill_node(1)?;
        w.run_to_quiescence(20000)?;
        for o in c.away.iter() {
            exec_op(&mut w, o)?;
        }
        println!("primary before the rejoin: {:?}", view(&w, 0));
        {
            w.nodes[0].node.ctx.install();
            let ops = nundb::disk_ops::read_operations_since(0);
            let mut v: Vec<_> = ops.values().collect();
            v.sort_by_key(|r| r.opp_position);
            let keys = w.nodes[0].node.dbs.id_keys_map.read().unwrap().clone();
            println!("primary's oplog (latest record per key): {:?}", v.iter().map(|r| format!("pos{} t{} db{} key{}({:?}) {:?}", r.opp_position, r.timestamp, r.db, r.key, keys.get(&r.key), match r.opp { nundb::bo::ReplicateOpp::Update => "Update", nundb::bo::ReplicateOpp::Remove => "Remove", nundb::bo::ReplicateOpp::CreateDb => "CreateDb", nundb::bo::ReplicateOpp::Snapshot => "Snapshot" })).collect::<Vec<_>>());
        }
        w.traffic.clear();
        w.restart_node(1, c.joiner == Joiner::EmptyDisk, 200)?;
        println!("joiner after its restart:  {:?}", view(&w, 1));
        w.join_cluster(1)?;
        w.run_to_quiescence(50000)?;
        Ok(())
    })();
    if let Err(e) = r {
        eprintln!("machinery: {}", e);
        return 2;
    }
    println!("messages since the joiner came back:");
    for (f, t, m) in w.traffic.iter() {
        if !(m.contains("ack ") || m.ends_with("<- ok")) {
            println!("   n{} -> n{}  {}", f + 1, t + 1, m);
        }
    }
    println!("primary: {:?}", view(&w, 0));
    println!("joiner:  {:?}", view(&w, 1));
    w.shutdown();
    let out = run_case(&c).unwrap_or_default();
    for o in out.iter() {
        println!("verdict: {} [{}] {}", o.0, o.1, o.2);
    }
    if out.is_empty() { 0 } else { 1 }
}
