//! C18 — S3 storage strategies restore what the disk strategy would. SEQ x FAULT against an
//! in-process S3 stub; one worker process per (strategy, partition count, slice) because the
//! storage configuration is read once per process.
use super::c06::{snap_state_of, SnapState};
use crate::report::{Run, Violation};
use crate::s3stub::Stub;
use crate::seq::*;
use crate::world::*;
use nundb::bo::*;
use serde_json::json;
use std::collections::BTreeMap;
use std::sync::Arc;

#[derive(Clone, Debug)]
enum L {
    Set(&'static str, &'static str),
    Remove(&'static str),
    Inc(&'static str),
    Snapshot(bool),
    Restart,
}

pub struct W {
    ctx: Arc<NodeCtx>,
    node: Node,
    admin: Session,
    tok: Session,
    model: BTreeMap<String, String>,
    snap: BTreeMap<String, SnapState>,
    prev_snap: BTreeMap<String, SnapState>,
    steps: usize,
}

pub struct C18 {
    letters: Vec<L>,
    stub: Arc<Stub>,
    tag: String,
    slice: (usize, usize),
}

fn open_sessions(node: &Node) -> (Session, Session) {
    let mut admin = Session::new();
    let mut tok = Session::new();
    admin.exec(node, &format!("auth {} {}", USER, PWD));
    admin.exec(node, "use-db t tok");
    tok.exec(node, "use-db t tok");
    (admin, tok)
}

/// (kind, detail) differences between what a restart loads and the reference snapshot state
fn diffs(dbs: &Arc<Databases>, snap: &BTreeMap<String, SnapState>, prev: &BTreeMap<String, SnapState>) -> Vec<(String, String)> {
    let mut out = vec![];
    for (name, want) in snap.iter() {
        let got = match snap_state_of(dbs, name) {
            None => {
                out.push(("database missing after restart".to_string(), format!("database {}", name)));
                continue;
            }
            Some(g) => g,
        };
        if got.id != want.id {
            out.push(("database id differs".to_string(), format!("{}: snapshotted id {} loaded id {}", name, want.id, got.id)));
        }
        if got.strategy != want.strategy {
            out.push(("conflict strategy differs".to_string(), format!("{}: snapshotted strategy {} loaded {}", name, want.strategy, got.strategy)));
        }
        let before = prev.get(name);
        for (k, v) in want.live.iter() {
            if k == "$connections" {
                continue;
            }
            let untouched = before.map(|b| b.live.get(k) == Some(v)).unwrap_or(false);
            match got.live.get(k) {
                None => out.push((if untouched { "key untouched since the previous snapshot is lost".to_string() } else { "snapshotted key is lost".to_string() }, format!("{}.{}={:?}", name, k, v))),
                Some(g) if g.0 != v.0 => out.push(("value differs".to_string(), format!("{}.{}: snapshotted {:?} loaded {:?}", name, k, v, g))),
                Some(g) if g.1 != v.1 => out.push(("version differs".to_string(), format!("{}.{}: snapshotted {:?} loaded {:?}", name, k, v, g))),
                _ => {}
            }
        }
        for (k, g) in got.live.iter() {
            if k != "$connections" && !want.live.contains_key(k) {
                out.push((if g.0 == "<Empty>" { "removed key is back as <Empty>".to_string() } else { "key that was not in the snapshot is loaded".to_string() }, format!("{}.{}={:?}", name, k, g)));
            }
        }
    }
    out
}

impl W {
    fn shadow_check(&self, tag: &str) -> Vec<StepViolation> {
        let ctx2 = NodeCtx::new(fresh_dir("c18-shadow"), 900_000);
        let r = std::panic::catch_unwind(std::panic::AssertUnwindSafe(|| Node::start(ctx2.clone(), "n1:1", 1)));
        self.ctx.install();
        let out = match r {
            Err(e) => vec![StepViolation { clause: "restart-panic".into(), detail: format!("start-up panicked: {} at {:?}", panic_msg(&e), take_panic_loc()), shape: Some(format!("{}: start-up panic", tag)), soft: false }],
            Ok(n2) => {
                let d = diffs(&n2.dbs, &self.snap, &self.prev_snap);
                n2.shutdown();
                d.into_iter().map(|(kind, detail)| StepViolation { clause: "restart-mismatch".into(), detail, shape: Some(format!("{}: {}", tag, kind)), soft: true }).collect()
            }
        };
        let _ = std::fs::remove_dir_all(&ctx2.dir);
        out
    }
}

impl SeqModel for C18 {
    type World = W;
    fn letters(&self) -> Vec<String> {
        self.letters.iter().map(|l| format!("{:?}", l)).collect()
    }
    fn new_world(&self) -> W {
        self.stub.reset();
        let ctx = NodeCtx::new(fresh_dir("c18"), 1000);
        let node = Node::start(ctx.clone(), "n1:1", 1);
        node.set_role(ClusterRole::Primary);
        let mut admin = Session::new();
        admin.exec(&node, &format!("auth {} {}", USER, PWD));
        admin.exec(&node, "create-db t tok none");
        admin.exec(&node, "create-db t2 tok2 newer");
        admin.exec(&node, "use-db t2 tok2");
        admin.exec(&node, "set z zz");
        admin.exec(&node, "snapshot false t2");
        node.run_snapshot_queue();
        let mut snap = BTreeMap::new();
        snap.insert("t2".to_string(), snap_state_of(&node.dbs, "t2").unwrap());
        let _ = admin.disconnect(&node);
        let (admin, tok) = open_sessions(&node);
        let mut model = BTreeMap::new();
        model.insert("$$token".to_string(), "tok".to_string());
        model.insert("$connections".to_string(), "2".to_string());
        let mut w = W { ctx, node, admin, tok, model, prev_snap: snap.clone(), snap, steps: 0 };
        w.node.drain_queues();
        w
    }
    fn drop_world(&self, w: W) {
        w.node.remove_dir()
    }
    fn key(&self, w: &W) -> String {
        let mut all = dump_all(&w.node.dbs);
        rank_opp_ids(&mut all);
        let objs: Vec<(String, u128)> = self.stub.objects.lock().unwrap().iter().map(|(k, v)| (k.clone(), crate::util::hash128(&String::from_utf8_lossy(v)))).collect();
        format!("{:?}|{:?}|{:?}|{:?}", w.model, w.snap, all, objs)
    }
    fn roots(&self) -> Vec<Vec<usize>> {
        // start from the empty database and from a dataset that is already in the bucket
        let find = |n: &str| self.letters.iter().position(|l| format!("{:?}", l) == n).unwrap();
        vec![vec![], vec![find("Set(\"a\", \"1\")"), find("Set(\"bb\", \"1\")"), find("Snapshot(false)")]]
    }
    fn enabled(&self, w: &W, letter: usize) -> bool {
        // the first letter after a root decides which worker process explores the history
        (w.steps != 0 && w.steps != 3) || letter % self.slice.1 == self.slice.0 || (w.steps == 3 && !w.snap.contains_key("t"))
    }
    fn step(&self, w: &mut W, letter: usize) -> Vec<StepViolation> {
        // the engine keeps using a world whose state a letter did not change: the step counter
        // (which `enabled` reads to slice the work at the roots) must then not have moved either
        let s0 = w.steps;
        let k0 = if s0 <= 3 { Some(self.key(w)) } else { None };
        let r = self.step_inner(w, letter);
        if let Some(k0) = k0 {
            if r.is_empty() && self.key(w) == k0 {
                w.steps = s0;
            }
        }
        r
    }
}

impl C18 {
    fn step_inner(&self, w: &mut W, letter: usize) -> Vec<StepViolation> {
        w.ctx.install();
        let l = self.letters[letter].clone();
        w.steps += 1;
        let hard = |clause: &str, detail: String| vec![StepViolation { clause: clause.to_string(), detail, shape: None, soft: false }];
        match &l {
            L::Set(k, v) => {
                let o = w.tok.exec(&w.node, &format!("set {} {}", k, v));
                if o.resp != "Ok" {
                    return hard("reply-mismatch", format!("{:?}: {:?}", l, o));
                }
                w.model.insert(k.to_string(), v.to_string());
            }
            L::Remove(k) => {
                let o = w.tok.exec(&w.node, &format!("remove {}", k));
                if o.resp != "Ok" {
                    return hard("reply-mismatch", format!("{:?}: {:?}", l, o));
                }
                w.model.remove(*k);
            }
            L::Inc(k) => {
                let o = w.tok.exec(&w.node, &format!("increment {}", k));
                let cur = w.model.get(*k).cloned().unwrap_or("0".into());
                if let Some(n) = cur.parse::<i32>().ok().and_then(|c| c.checked_add(1)) {
                    if o.resp != "Ok" {
                        return hard("reply-mismatch", format!("{:?}: {:?}", l, o));
                    }
                    w.model.insert(k.to_string(), n.to_string());
                }
            }
            L::Snapshot(reclaim) => {
                let o = w.admin.exec(&w.node, &format!("snapshot {} t", reclaim));
                if o.resp != "Ok" {
                    return hard("reply-mismatch", format!("{:?}: {:?}", l, o));
                }
                let r = std::panic::catch_unwind(std::panic::AssertUnwindSafe(|| w.node.run_snapshot_queue()));
                if let Err(e) = r {
                    return hard("snapshot-panic", format!("snapshot panicked without any injected fault: {}", panic_msg(&e)));
                }
                let got = snap_state_of(&w.node.dbs, "t").unwrap();
                // a snapshot must not change what clients see
                let mem: BTreeMap<String, String> = got.live.iter().map(|(k, v)| (k.clone(), v.0.clone())).collect();
                if mem != w.model {
                    let back: Vec<&String> = mem.iter().filter(|(k, v)| !w.model.contains_key(*k) && v.as_str() == "<Empty>").map(|(k, _)| k).collect();
                    let kind = if !back.is_empty() { "a removed key is a live key with value <Empty> after the snapshot" } else { "the snapshot changed the data in memory" };
                    return vec![StepViolation { clause: "snapshot-changed-memory".into(), detail: format!("after {:?}: memory {:?}, reference {:?}", l, mem, w.model), shape: Some(format!("{}: {}", self.tag, kind)), soft: false }];
                }
                if let Some(p) = w.snap.get("t").cloned() {
                    w.prev_snap.insert("t".to_string(), p);
                }
                w.snap.insert("t".to_string(), got);
                let v = w.shadow_check(&self.tag);
                if !v.is_empty() {
                    return v;
                }
            }
            L::Restart => {
                let ctx = w.ctx.clone();
                let r = std::panic::catch_unwind(std::panic::AssertUnwindSafe(|| Node::start(ctx, "n1:1", 1)));
                let node = match r {
                    Ok(n) => n,
                    Err(e) => return hard("restart-panic", format!("start-up panicked: {} at {:?}", panic_msg(&e), take_panic_loc())),
                };
                node.set_role(ClusterRole::Primary);
                let d = diffs(&node.dbs, &w.snap, &w.prev_snap);
                w.node.shutdown();
                w.node = node;
                // metadata is never stored by the S3 strategies (known finding): the history goes
                // on; any other difference ends it
                let is_meta = |k: &String| k == "database id differs" || k == "conflict strategy differs";
                let vs: Vec<StepViolation> = d
                    .iter()
                    .map(|(kind, detail)| StepViolation { clause: "restart-mismatch".into(), detail: detail.clone(), shape: Some(format!("{}: {}", self.tag, kind)), soft: is_meta(kind) })
                    .collect();
                if d.iter().any(|(k, _)| !is_meta(k)) {
                    return vs;
                }
                // keep the reference in line with what the node now believes about ids/strategies
                for st in [&mut w.snap, &mut w.prev_snap] {
                    for (name, s) in st.iter_mut() {
                        if let Some(now) = snap_state_of(&w.node.dbs, name) {
                            s.id = now.id;
                            s.strategy = now.strategy;
                        }
                    }
                }
                if !w.snap.contains_key("t") {
                    let mut a = Session::new();
                    a.exec(&w.node, &format!("auth {} {}", USER, PWD));
                    a.exec(&w.node, "create-db t tok none");
                    w.model.clear();
                    w.model.insert("$$token".to_string(), "tok".to_string());
                } else {
                    w.model = w.snap["t"].live.iter().map(|(k, v)| (k.clone(), v.0.clone())).collect();
                }
                let (a, t) = open_sessions(&w.node);
                w.admin = a;
                w.tok = t;
                w.model.insert("$connections".to_string(), "2".to_string());
                w.node.drain_queues();
                return vs;
            }
        }
        w.node.drain_queues();
        vec![]
    }
}

fn set_env(strategy: &str, partitions: &str, port: u16) {
    std::env::set_var("NUN_STORAGE_STRATEGY", strategy);
    std::env::set_var("NUN_S3_API_URL", format!("http://127.0.0.1:{}", port));
    std::env::set_var("NUN_S3_NUMBER_OF_PARTITIONS", partitions);
    std::env::set_var("NUN_S3_RETRY", "2");
    std::env::set_var("AWS_EC2_METADATA_DISABLED", "true");
    std::env::set_var("AWS_MAX_ATTEMPTS", "1");
}

/// worker process: prints V\t<clause>\t<shape>\t<detail>\t<history> and S\t<states>\t<transitions>\t<histories>\t<exhausted>
pub fn worker(args: &[String]) {
    let (strategy, partitions, tier, slice_i, slice_n, mode) = (&args[0], &args[1], &args[2], args[3].parse::<usize>().unwrap(), args[4].parse::<usize>().unwrap(), &args[5]);
    let stub = Stub::start("nun-db");
    set_env(strategy, partitions, stub.port);
    let tag = format!("{} ({} partitions)", strategy, partitions);
    if mode == "faults" {
        return fault_worker(&stub, &tag);
    }
    let quick = tier == "quick";
    let mut letters = vec![];
    for k in ["a", "bb"] {
        // quick: the non-ASCII value on one key, the empty value on the other (same alphabet size)
        for v in if quick { if k == "a" { vec!["1", "é"] } else { vec!["1", ""] } } else { vec!["1", "é", ""] } {
            letters.push(L::Set(k, v));
        }
        letters.push(L::Remove(k));
    }
    letters.push(L::Inc("a"));
    letters.push(L::Snapshot(false));
    letters.push(L::Snapshot(true));
    letters.push(L::Restart);
    let m = C18 { letters, stub: stub.clone(), tag, slice: (slice_i, slice_n) };
    let cfg = SeqConfig { max_depth: if quick { 3 } else { 5 }, workers: 1, max_states: 2_000_000, budget: std::time::Duration::from_secs(if quick { 40 } else { 1200 }) };
    let res = explore(&m, &cfg);
    let names = m.letters();
    for v in res.violations.iter() {
        let hist: Vec<String> = v.history.iter().map(|i| names[*i].clone()).collect();
        println!("V\t{}\t{}\t{}\t{}", v.clause, v.shape.clone().unwrap_or_else(|| hist.join(" ; ")), v.detail.replace('\t', " ").replace('\n', " "), hist.join(" ; "));
    }
    println!("S\t{}\t{}\t{}\t{}", res.states, res.transitions, res.histories, res.exhausted_bound && res.depth_completed >= cfg.max_depth);
}

/// FAULT pass: a fixed write/snapshot script with the n-th upload failing once / always, n-th download failing once
fn fault_worker(stub: &Arc<Stub>, tag: &str) {
    let script = |stub: &Arc<Stub>, plan: &dyn Fn(&Arc<Stub>)| -> (Result<(), String>, Vec<(String, String)>, usize, Vec<String>) {
        stub.reset();
        let ctx = NodeCtx::new(fresh_dir("c18f"), 1000);
        let node = Node::start(ctx.clone(), "n1:1", 1);
        node.set_role(ClusterRole::Primary);
        let mut admin = Session::new();
        admin.exec(&node, &format!("auth {} {}", USER, PWD));
        admin.exec(&node, "create-db t tok none");
        admin.exec(&node, "use-db t tok");
        for (k, v) in [("a", "1"), ("bb", "2"), ("ccc", "3")] {
            admin.exec(&node, &format!("set {} {}", k, v));
        }
        admin.exec(&node, "snapshot false t");
        node.run_snapshot_queue();
        admin.exec(&node, "set a 4");
        admin.exec(&node, "snapshot false t");
        plan(stub);
        let puts_before = stub.put_ops.load(std::sync::atomic::Ordering::SeqCst);
        let r = std::panic::catch_unwind(std::panic::AssertUnwindSafe(|| node.run_snapshot_queue()));
        let puts = stub.put_ops.load(std::sync::atomic::Ordering::SeqCst) - puts_before;
        let reported = r.map_err(|e| panic_msg(&e));
        let mut snap = BTreeMap::new();
        snap.insert("t".to_string(), snap_state_of(&node.dbs, "t").unwrap());
        // downloads are not part of this plan: stop injecting
        stub.fail_put.store(0, std::sync::atomic::Ordering::SeqCst);
        let ctx2 = NodeCtx::new(fresh_dir("c18f2"), 900_000);
        let r2 = std::panic::catch_unwind(std::panic::AssertUnwindSafe(|| Node::start(ctx2.clone(), "n1:1", 1)));
        ctx.install();
        let d = match r2 {
            Ok(n2) => {
                let d = diffs(&n2.dbs, &snap, &BTreeMap::new());
                n2.shutdown();
                d
            }
            Err(e) => vec![("start-up panic".to_string(), panic_msg(&e))],
        };
        let _ = std::fs::remove_dir_all(&ctx2.dir);
        let log = stub.log.lock().unwrap().clone();
        node.remove_dir();
        (reported, d, puts, log)
    };
    // how many uploads does the interrupted snapshot make?
    let (_, base_diffs, nputs, _) = script(stub, &|_s| {});
    let base_kinds: std::collections::BTreeSet<String> = base_diffs.iter().map(|d| d.0.clone()).collect();
    let mut evals = 1;
    for n in 1..=nputs.max(1) {
        for always in [false, true] {
            for status in [403usize, 500] {
                evals += 1;
                let (reported, d, _, log) = script(stub, &|s: &Arc<Stub>| {
                    let base = s.put_ops.load(std::sync::atomic::Ordering::SeqCst);
                    s.fail_status.store(status, std::sync::atomic::Ordering::SeqCst);
                    s.fail_put_always.store(always, std::sync::atomic::Ordering::SeqCst);
                    s.fail_put.store(base + n, std::sync::atomic::Ordering::SeqCst);
                });
                let new_kinds: Vec<&(String, String)> = d.iter().filter(|x| !base_kinds.contains(&x.0)).collect();
                let plan = format!("upload #{} of the snapshot fails {} with {}", n, if always { "always" } else { "once" }, status);
                if reported.is_ok() && !new_kinds.is_empty() {
                    println!(
                        "V\tupload-failure-dropped-data-silently\t{}: {} fails {}: {}\t{}; the snapshot returned normally but a restart shows {:?}; requests {:?}\t{}",
                        tag,
                        "an upload",
                        if always { "always" } else { "once" },
                        new_kinds[0].0,
                        plan,
                        new_kinds,
                        log,
                        plan
                    );
                }
                if !always && reported.is_err() {
                    println!("V\tretry-did-not-recover\t{}: an upload that fails once is not retried successfully\t{}; snapshot reported {:?}\t{}", tag, plan, reported, plan);
                }
            }
        }
    }
    println!("S\t{}\t{}\t{}\ttrue", evals, evals, evals);
}


// ---------------------------------------------------------------------------------------------
// the life of a node as three processes sharing one bucket (state that lives in a process, such
// as a lazily built global, is invisible to restarts inside one process)

/// child: `C18X <strategy> <partitions> <stub port> <phase>`; prints K\t<key>\t<version>\t<value> lines and DONE
pub fn xproc_child(args: &[String]) {
    let (strategy, partitions, port, phase) = (&args[0], &args[1], args[2].parse::<u16>().unwrap(), args[3].parse::<u64>().unwrap());
    set_env(strategy, partitions, port);
    let ctx = NodeCtx::new(fresh_dir("c18x"), phase * 1_000_000);
    let node = Node::start(ctx.clone(), "n1:1", 1);
    node.set_role(ClusterRole::Primary);
    let mut admin = Session::new();
    admin.exec(&node, &format!("auth {} {}", USER, PWD));
    let snapshot = |admin: &mut Session, node: &Node| {
        admin.exec(node, "snapshot false t");
        node.run_snapshot_queue();
    };
    match phase {
        1 => {
            admin.exec(&node, "create-db t tok none");
            admin.exec(&node, "use-db t tok");
            for i in 0..24 {
                admin.exec(&node, &format!("set k{:02} v{}", i, i));
            }
            admin.exec(&node, "set a 1");
            snapshot(&mut admin, &node);
        }
        2 => {
            admin.exec(&node, "use-db t tok");
            admin.exec(&node, "set k03 w2");
            admin.exec(&node, "set fresh n1");
            admin.exec(&node, "increment a");
            snapshot(&mut admin, &node);
        }
        _ => {}
    }
    match snap_state_of(&node.dbs, "t") {
        Some(s) => {
            for (k, (v, ver)) in s.live.iter() {
                println!("K\t{}\t{}\t{}", k, ver, v);
            }
        }
        None => println!("NODB"),
    }
    println!("DONE");
    node.remove_dir();
}

fn xproc_pass(run: &mut Run, quick: bool) {
    let exe = crate::util::self_exe();
    let mut runs = 0;
    for (strategy, parts) in if quick { vec![("s3_patition", "10")] } else { vec![("s3_patition", "10"), ("s3_patition", "3"), ("s3", "10")] } {
        let stub = Stub::start("nun-db");
        let tag = format!("{} ({} partitions)", strategy, parts);
        let mut states: Vec<Option<BTreeMap<String, (String, i32)>>> = vec![];
        for phase in 1..=3 {
            let o = std::process::Command::new(&exe).args(["C18X", strategy, parts, &stub.port.to_string(), &phase.to_string()]).output().expect("spawn C18X");
            let text = String::from_utf8_lossy(&o.stdout).to_string();
            if !text.contains("DONE") {
                // the child died: a start-up (or snapshot) failure of the code under test
                run.violate(Violation {
                    clause: "restart-panic".into(),
                    shape: format!("{}: a process of the node's life died (phase {})", tag, phase),
                    detail: format!("stdout {:?} stderr {:?}", text.chars().take(400).collect::<String>(), String::from_utf8_lossy(&o.stderr).chars().take(1200).collect::<String>()),
                    replay: json!({"engine":"c18","pass":"three processes","strategy":strategy,"partitions":parts}),
                });
                states.clear();
                break;
            }
            if text.contains("NODB") {
                states.push(None);
                continue;
            }
            let mut m = BTreeMap::new();
            for l in text.lines() {
                let p: Vec<&str> = l.splitn(4, '\t').collect();
                if p.len() == 4 && p[0] == "K" {
                    m.insert(p[1].to_string(), (p[3].to_string(), p[2].parse::<i32>().unwrap_or(-99)));
                }
            }
            states.push(Some(m));
        }
        runs += 1;
        if states.len() != 3 {
            continue;
        }
        let (first, want, got) = (states[0].clone().unwrap_or_default(), states[1].clone().unwrap_or_default(), states[2].clone());
        let mut out: Vec<(String, String)> = vec![];
        match got {
            None => out.push(("database missing after restart".to_string(), "database t".to_string())),
            Some(got) => {
                for (k, v) in want.iter() {
                    if k == "$connections" {
                        continue;
                    }
                    let untouched = first.get(k) == Some(v);
                    match got.get(k) {
                        None => out.push((if untouched { "key untouched since the previous snapshot is lost".to_string() } else { "snapshotted key is lost".to_string() }, format!("t.{}={:?}", k, v))),
                        Some(g) if g.0 != v.0 => out.push(("value differs".to_string(), format!("t.{}: snapshotted {:?} loaded {:?}", k, v, g))),
                        Some(g) if g.1 != v.1 => out.push(("version differs".to_string(), format!("t.{}: snapshotted {:?} loaded {:?}", k, v, g))),
                        _ => {}
                    }
                }
                for (k, g) in got.iter() {
                    if k != "$connections" && !want.contains_key(k) {
                        out.push(("key that was not in the snapshot is loaded".to_string(), format!("t.{}={:?}", k, g)));
                    }
                }
            }
        }
        let mut seen = std::collections::BTreeSet::new();
        for (kind, detail) in out {
            if seen.insert(kind.clone()) {
                run.violate(Violation {
                    clause: "restart-mismatch".into(),
                    shape: format!("{}: {}", tag, kind),
                    detail: format!("{} || three processes on one bucket: [25 keys, snapshot] exit; [start, set k03, set fresh, increment a, snapshot] exit; [start] compared with the second process's snapshot state", detail),
                    replay: json!({"engine":"c18","pass":"three processes","strategy":strategy,"partitions":parts}),
                });
            }
        }
    }
    run.cov("lives_played_as_three_processes", json!(runs));
    run.cov_add("evaluations", runs);
}

pub fn run(run: &mut Run) {
    let quick = run.quick();
    let exe = crate::util::self_exe();
    let mut jobs: Vec<Vec<String>> = vec![];
    let slices = if quick { 4 } else { 5 };
    for (strategy, parts) in [("s3", "10"), ("s3_patition", "1"), ("s3_patition", "3"), ("s3_patition", "10")] {
        if quick && parts == "1" {
            continue;
        }
        for i in 0..slices {
            jobs.push(vec![strategy.into(), parts.into(), run.tier.clone(), i.to_string(), slices.to_string(), "histories".into()]);
        }
        jobs.push(vec![strategy.into(), parts.into(), run.tier.clone(), "0".into(), "1".into(), "faults".into()]);
    }
    let idx = std::sync::atomic::AtomicUsize::new(0);
    let outs: std::sync::Mutex<Vec<(usize, std::process::Output)>> = std::sync::Mutex::new(vec![]);
    std::thread::scope(|s| {
        for _ in 0..16usize.min(jobs.len()) {
            s.spawn(|| loop {
                let i = idx.fetch_add(1, std::sync::atomic::Ordering::SeqCst);
                if i >= jobs.len() {
                    break;
                }
                let mut a = vec!["C18W".to_string()];
                a.extend(jobs[i].iter().cloned());
                let o = std::process::Command::new(&exe).args(&a).output().expect("spawn C18 worker");
                outs.lock().unwrap().push((i, o));
            });
        }
    });
    let mut all_ex = true;
    let mut seen = std::collections::BTreeSet::new();
    for (i, o) in outs.into_inner().unwrap() {
        let text = String::from_utf8_lossy(&o.stdout).to_string();
        if o.status.code() != Some(0) || !text.contains("\nS\t") && !text.starts_with("S\t") {
            eprintln!("machinery: C18 worker {:?} failed: status {:?}\n{}\n{}", jobs[i], o.status.code(), text.chars().take(2000).collect::<String>(), String::from_utf8_lossy(&o.stderr).chars().take(3000).collect::<String>());
            std::process::exit(2);
        }
        for line in text.lines() {
            let p: Vec<&str> = line.split('\t').collect();
            match p[0] {
                "V" if p.len() >= 5 => {
                    if seen.insert((p[1].to_string(), p[2].to_string())) {
                        run.violate(Violation { clause: p[1].to_string(), shape: p[2].to_string(), detail: format!("{} || history: {}", p[3], p[4]), replay: json!({"engine":"c18","worker":jobs[i],"history":p[4]}) });
                    }
                }
                "S" if p.len() >= 5 => {
                    let st: u64 = p[1].parse().unwrap_or(0);
                    let tr: u64 = p[2].parse().unwrap_or(0);
                    let hi: u64 = p[3].parse().unwrap_or(0);
                    run.cov_add("evaluations", hi);
                    run.cov_add("states", st);
                    run.cov_add("transitions", tr);
                    if jobs[i][5] == "faults" {
                        run.cov_add("fault_plans_run", hi);
                    }
                    all_ex &= p[4] == "true";
                }
                _ => {}
            }
        }
    }
    xproc_pass(run, quick);
    let st = run.coverage.get("states").and_then(|v| v.as_u64()).unwrap_or(0);
    run.cov("distinct_nontrivial", json!(st));
    run.cov("rule", json!("histories over set/remove/increment/snapshot false|true/restart up to the depth bound, per storage strategy and partition count; distinct = distinct (memory, bucket content, reference) states; fault plans = every upload position of a fixed incremental snapshot x {fails once, fails always} x {403, 500}"));
    run.cov("worker_processes", json!(jobs.len()));
    run.cov("exhaustive", json!(all_ex));
    run.sample(json!({"worker": jobs[0], "letters": ["Set(a,1)", "Remove(a)", "Inc(a)", "Snapshot(false)", "Snapshot(true)", "Restart"]}));
    run.assume("the S3 endpoint is an in-process stub (PutObject / GetObject / ListObjectsV2, path style, aws-chunked bodies); it is an environment, not a model of nun-db");
    run.assume("a fault is attached to one SDK operation (invocation id), so retries inside the AWS SDK see it too and only nun-db's own retry gets through; AWS_MAX_ATTEMPTS=1");
}
