//! C13 — arbiter databases never apply or lose a conflicting write silently.
//! Single node: SEQ over writes / arbiter connect / disconnect / resolve (oldest or newest notice).
use crate::report::Run;
use crate::seq::*;
use crate::world::*;
use std::collections::BTreeMap;

#[derive(Clone, Debug)]
enum L {
    Set(&'static str),
    SetSafeStale(&'static str),
    SetSafeFresh(&'static str),
    ArbiterConnect,
    ArbiterDisconnect,
    ResolveOldest(&'static str),
    ResolveNewest(&'static str),
    /// the answer that was given last for this key is sent once more (same id, version and value) while
    /// other conflicts of the key may still be waiting: a duplicate must not change what is pending
    ResolveAgain(&'static str),
    /// the connected arbiter goes and a new one registers (one letter, so that sequences with
    /// several registrations stay within the depth bound)
    ArbiterReconnect,
    /// `snapshot false t` carried out: what is on disk decides whether a removed conflict record
    /// leaves a tombstone behind
    Snapshot,
}

#[derive(Clone, Debug, PartialEq, Eq, PartialOrd, Ord)]
struct Notice {
    id: u64,
    version: i32,
    proposed: String,
}

pub struct W {
    node: Node,
    admin: Session,
    writer: Session,
    arbiter: Option<Session>,
    registered_ever: bool,
    /// reference: value a client must read, unresolved notices per key (in arrival order)
    value: BTreeMap<String, String>,
    unresolved: BTreeMap<String, Vec<Notice>>,
    last_resolution: BTreeMap<String, String>,
    /// the notice answered last per key, and the value it was answered with
    last_answered: BTreeMap<String, (Notice, String)>,
    steps: usize,
}

pub struct C13 {
    letters: Vec<L>,
}

fn v(clause: &str, detail: String) -> Vec<StepViolation> {
    vec![StepViolation { clause: clause.to_string(), detail, shape: None, soft: false }]
}

fn conflict_entries(w: &W, key: &str) -> BTreeMap<u64, String> {
    with_db(&w.node.dbs, "t", |db| {
        dump_db(db)
            .into_iter()
            .filter(|(k, v)| k.starts_with(&format!("$conflicts_{}_", key)) && v.state != nundb::bo::ValueStatus::Deleted as u8)
            .filter_map(|(k, v)| k.rsplit('_').next().and_then(|id| id.parse::<u64>().ok()).map(|id| (id, v.value)))
            .collect()
    })
    .unwrap_or_default()
}

fn parse_notice(m: &str) -> Option<(u64, i32, String, String)> {
    // resolve <opp_id> <db> <version> <key> <old value or conflict key> <value>
    let p: Vec<&str> = m.trim().split(' ').collect();
    if p.len() < 7 || p[0] != "resolve" {
        return None;
    }
    Some((p[1].parse().ok()?, p[3].parse().ok()?, p[4].to_string(), p[p.len() - 1].to_string()))
}

impl SeqModel for C13 {
    type World = W;
    fn letters(&self) -> Vec<String> {
        self.letters.iter().map(|l| format!("{:?}", l)).collect()
    }
    fn new_world(&self) -> W {
        let node = Node::new_single("c13");
        let mut admin = Session::new();
        admin.exec(&node, &format!("auth {} {}", USER, PWD));
        admin.exec(&node, "create-db t tok arbiter");
        admin.exec(&node, "use-db t tok");
        let mut writer = Session::new();
        writer.exec(&node, "use-db t tok");
        // both keys exist with version 1, so that version 0 is stale
        let mut value = BTreeMap::new();
        for k in ["k", "j"] {
            writer.exec(&node, &format!("set {} i0", k));
            writer.exec(&node, &format!("set {} i1", k));
            value.insert(k.to_string(), "i1".to_string());
        }
        let mut w = W { node, admin, writer, arbiter: None, registered_ever: false, value, unresolved: BTreeMap::new(), last_resolution: BTreeMap::new(), last_answered: BTreeMap::new(), steps: 0 };
        w.node.drain_queues();
        w
    }
    fn drop_world(&self, w: W) {
        w.node.remove_dir()
    }
    fn key(&self, w: &W) -> String {
        let mut all = dump_all(&w.node.dbs);
        rank_opp_ids(&mut all);
        let watchers = with_db(&w.node.dbs, "t", |db| watcher_counts(db));
        // conflict keys carry op ids in their names: rank them too
        let txt = format!("{:?}|{:?}|{:?}|{:?}|{}|{}|{:?}", all, watchers, w.value, w.unresolved, w.arbiter.is_some(), w.registered_ever, w.last_answered);
        canon(&txt)
    }
    fn enabled(&self, w: &W, letter: usize) -> bool {
        match &self.letters[letter] {
            L::ArbiterConnect => w.arbiter.is_none(),
            L::ArbiterDisconnect | L::ArbiterReconnect => w.arbiter.is_some(),
            L::ResolveOldest(k) => w.arbiter.is_some() && w.unresolved.get(*k).map(|u| !u.is_empty()).unwrap_or(false),
            L::ResolveNewest(k) => w.arbiter.is_some() && w.unresolved.get(*k).map(|u| u.len() >= 2).unwrap_or(false),
            L::ResolveAgain(k) => w.arbiter.is_some() && w.last_answered.contains_key(*k),
            _ => true,
        }
    }
    fn step(&self, w: &mut W, letter: usize) -> Vec<StepViolation> {
        w.node.ctx.install();
        w.steps += 1;
        let l = self.letters[letter].clone();
        match &l {
            L::Set(k) | L::SetSafeStale(k) | L::SetSafeFresh(k) => {
                let key = k.to_string();
                let cur = with_db(&w.node.dbs, "t", |db| dump_db(db).get(*k).map(|x| x.version).unwrap_or(1)).unwrap_or(1);
                let in_conflict = w.unresolved.get(&key).map(|u| !u.is_empty()).unwrap_or(false);
                let val = format!("w{}", w.steps);
                let (line, stale) = match &l {
                    L::Set(_) => (format!("set {} {}", k, val), false),
                    L::SetSafeStale(_) => (format!("set-safe {} 0 {}", k, val), true),
                    _ => (format!("set-safe {} {} {}", k, cur.max(0), val), false),
                };
                let conflicting = in_conflict || (stale && cur > 0);
                let before_entries = conflict_entries(w, k);
                let o = w.writer.exec(&w.node, &line);
                w.node.drain_queues();
                if o.panic.is_some() {
                    return v("panic", format!("`{}`: {:?}", line, o));
                }
                let got = with_db(&w.node.dbs, "t", |db| dump_db(db).get(*k).map(|x| x.value.clone())).flatten().unwrap_or_default();
                let arb_msgs: Vec<String> = w.arbiter.as_mut().map(|a| a.drain()).unwrap_or_default();
                if !conflicting {
                    if o.resp != "Ok" {
                        return v("valid-write-refused", format!("`{}` (version {}, no conflict pending): {:?}", line, cur, o));
                    }
                    if got != val {
                        return v("valid-write-lost", format!("`{}` answered ok but the key holds {:?}", line, got));
                    }
                    w.value.insert(key.clone(), val);
                    if !arb_msgs.is_empty() {
                        return v("spurious-notice", format!("`{}` does not conflict but the arbiter got {:?}", line, arb_msgs));
                    }
                    return vec![];
                }
                // a conflicting write: never applied, never dropped silently
                if !o.resp.starts_with("Error(") {
                    return v("conflicting-write-not-reported", format!("`{}` conflicts (version {}, pending {:?}) but the reply is {:?}", line, cur, w.unresolved.get(&key), o.resp));
                }
                let want = w.value.get(&key).cloned().unwrap_or_default();
                if got != want && !(in_conflict && Some(&got) == w.last_resolution.get(&key)) {
                    return v("conflicting-write-applied", format!("`{}` conflicts but the key went {:?} -> {:?}", line, want, got));
                }
                let after_entries = conflict_entries(w, k);
                let new_ids: Vec<u64> = after_entries.keys().filter(|id| !before_entries.contains_key(id)).cloned().collect();
                if new_ids.is_empty() {
                    // refused without a record: allowed only while no arbiter has ever registered
                    if w.registered_ever {
                        return v("conflict-dropped-silently", format!("`{}` conflicts, an arbiter has registered, but no $conflicts_ entry was recorded (reply {:?})", line, o.resp));
                    }
                    return vec![];
                }
                if new_ids.len() != 1 {
                    return v("conflict-recorded-twice", format!("`{}` recorded {:?}", line, new_ids));
                }
                let id = new_ids[0];
                let notice = after_entries[&id].clone();
                let parsed = match parse_notice(&notice) {
                    Some(p) => p,
                    None => return v("malformed-notice", format!("`{}` recorded {:?}", line, notice)),
                };
                if parsed.3 != val || parsed.2 != *k {
                    return v("malformed-notice", format!("`{}` recorded {:?}", line, notice));
                }
                if w.arbiter.is_some() {
                    let n: Vec<&String> = arb_msgs.iter().filter(|m| m.trim() == notice.trim()).collect();
                    if n.len() != 1 {
                        return v("notice-not-delivered", format!("`{}` recorded notice {:?}; the registered arbiter got {:?}", line, notice, arb_msgs));
                    }
                }
                w.unresolved.entry(key).or_default().push(Notice { id, version: parsed.1, proposed: val });
                vec![]
            }
            L::Snapshot => {
                let o = w.admin.exec(&w.node, "snapshot false t");
                w.node.run_snapshot_queue();
                w.node.drain_queues();
                if o.resp != "Ok" {
                    return v("reply-mismatch", format!("snapshot: {:?}", o));
                }
                vec![]
            }
            L::ArbiterConnect | L::ArbiterReconnect => {
                if let L::ArbiterReconnect = &l {
                    let mut a = w.arbiter.take().unwrap();
                    let o = a.disconnect(&w.node);
                    if o.panic.is_some() {
                        return v("panic", format!("arbiter disconnect: {:?}", o));
                    }
                }
                let mut a = Session::new();
                a.exec(&w.node, "use-db t tok");
                let o = a.exec(&w.node, "arbiter");
                if o.resp != "Ok" {
                    return v("reply-mismatch", format!("arbiter: {:?}", o));
                }
                w.registered_ever = true;
                // a newly registered arbiter is sent exactly the unresolved conflicts
                let got: Vec<u64> = o.msgs.iter().filter_map(|m| parse_notice(m).map(|p| p.0)).collect();
                let mut want: Vec<u64> = w.unresolved.values().flat_map(|u| u.iter().map(|n| n.id)).collect();
                want.sort();
                let mut got_sorted = got.clone();
                got_sorted.sort();
                if got_sorted != want {
                    return v("new-arbiter-notices-wrong", format!("unresolved conflicts {:?}; the new arbiter was sent {:?}", w.unresolved, o.msgs));
                }
                w.arbiter = Some(a);
                vec![]
            }
            L::ArbiterDisconnect => {
                let mut a = w.arbiter.take().unwrap();
                let o = a.disconnect(&w.node);
                if o.panic.is_some() {
                    return v("panic", format!("arbiter disconnect: {:?}", o));
                }
                vec![]
            }
            L::ResolveOldest(k) | L::ResolveNewest(k) => {
                let key = k.to_string();
                let list = w.unresolved.get_mut(&key).unwrap();
                let n = if matches!(l, L::ResolveOldest(_)) { list.remove(0) } else { list.pop().unwrap() };
                let remaining = list.len();
                let val = format!("r{}", w.steps);
                let line = format!("resolve {} t {} {} {}", n.id, k, n.version, val);
                let o = w.arbiter.as_mut().unwrap().exec(&w.node, &line);
                w.node.drain_queues();
                if o.panic.is_some() || o.resp != "Ok" {
                    return v("resolve-failed", format!("`{}`: {:?}", line, o));
                }
                w.last_resolution.insert(key.clone(), val.clone());
                w.last_answered.insert(key.clone(), (n.clone(), val.clone()));
                let entries = conflict_entries(w, k);
                match entries.get(&n.id) {
                    Some(e) if e.starts_with("resolved") => {}
                    other => return v("resolution-not-recorded", format!("`{}`: conflict entry is {:?}", line, other)),
                }
                let pending_impl = entries.values().filter(|e| !e.starts_with("resolved")).count();
                if pending_impl != remaining {
                    return v("pending-count-wrong", format!("after `{}`: {} unresolved in the reference, entries {:?}", line, remaining, entries));
                }
                let (got, ver) = with_db(&w.node.dbs, "t", |db| dump_db(db).get(*k).map(|x| (x.value.clone(), x.version))).flatten().unwrap_or_default();
                if remaining == 0 {
                    if got != val {
                        return v("last-resolution-lost", format!("every conflict of {} is resolved, the last resolution was {:?}, the key holds {:?}", k, val, got));
                    }
                    if ver < 0 {
                        return v("key-not-writable-after-resolution", format!("every conflict of {} is resolved but its version is {}", k, ver));
                    }
                    w.value.insert(key, val);
                } else if ver >= 0 {
                    return v("key-left-conflict-early", format!("{} still has {} unresolved conflict(s) but its version is {} (writes no longer queue)", k, remaining, ver));
                }
                vec![]
            }
            L::ResolveAgain(k) => {
                let key = k.to_string();
                let (n, val) = w.last_answered.get(&key).cloned().unwrap();
                let remaining = w.unresolved.get(&key).map(|u| u.len()).unwrap_or(0);
                let before = with_db(&w.node.dbs, "t", |db| dump_db(db).get(*k).map(|x| (x.value.clone(), x.version))).flatten().unwrap_or_default();
                let line = format!("resolve {} t {} {} {}", n.id, k, n.version, val);
                let o = w.arbiter.as_mut().unwrap().exec(&w.node, &line);
                w.node.drain_queues();
                if o.panic.is_some() {
                    return v("resolve-failed", format!("duplicate `{}`: {:?}", line, o));
                }
                // whatever the reply: what is pending, and whether writes to the key queue, stays as it was
                let entries = conflict_entries(w, k);
                let pending_impl = entries.values().filter(|e| !e.starts_with("resolved")).count();
                if pending_impl != remaining {
                    return v("pending-count-wrong", format!("after the duplicate `{}`: {} unresolved in the reference, entries {:?}", line, remaining, entries));
                }
                let (got, ver) = with_db(&w.node.dbs, "t", |db| dump_db(db).get(*k).map(|x| (x.value.clone(), x.version))).flatten().unwrap_or_default();
                if remaining > 0 && ver >= 0 {
                    return v("key-left-conflict-early", format!("{} still has {} unresolved conflict(s) but after the duplicate `{}` its version is {} (writes no longer queue)", k, remaining, line, ver));
                }
                if remaining == 0 {
                    // (a duplicate answer may or may not be applied again - the statement does not say; the key must
                    // stay writable, and the reference follows whichever value the node now serves)
                    if ver < 0 {
                        return v("key-not-writable-after-resolution", format!("every conflict of {} was resolved; after the duplicate `{}` its version is {}", k, line, ver));
                    }
                    if got != before.0 && got != val {
                        return v("last-resolution-lost", format!("the duplicate `{}` turned {:?} into {:?}", line, before, (got, ver)));
                    }
                    w.value.insert(key, got);
                }
                vec![]
            }
        }
    }
}

/// rank-rename the op ids that appear inside key names and notices
fn canon(s: &str) -> String {
    let mut ids: Vec<u64> = vec![];
    let mut cur = String::new();
    for ch in s.chars().chain(std::iter::once(' ')) {
        if ch.is_ascii_digit() {
            cur.push(ch);
        } else {
            if cur.len() >= 4 {
                if let Ok(n) = cur.parse::<u64>() {
                    if n >= 1000 {
                        ids.push(n);
                    }
                }
            }
            cur.clear();
        }
    }
    ids.sort();
    ids.dedup();
    let mut out = String::new();
    let mut cur = String::new();
    for ch in s.chars().chain(std::iter::once('\u{0}')) {
        if ch.is_ascii_digit() {
            cur.push(ch);
        } else {
            if !cur.is_empty() {
                match cur.parse::<u64>() {
                    Ok(n) if cur.len() >= 4 && n >= 1000 => out.push_str(&format!("#{}", ids.binary_search(&n).unwrap_or(0))),
                    _ => out.push_str(&cur),
                }
                cur.clear();
            }
            if ch != '\u{0}' {
                out.push(ch);
            }
        }
    }
    out
}

pub fn run(run: &mut Run) {
    let quick = run.quick();
    let mut letters = vec![];
    for k in ["k", "j"] {
        if k == "j" && quick {
            letters.push(L::SetSafeStale(k));
            continue;
        }
        letters.push(L::Set(k));
        letters.push(L::SetSafeStale(k));
        letters.push(L::SetSafeFresh(k));
        letters.push(L::ResolveOldest(k));
        letters.push(L::ResolveNewest(k));
        letters.push(L::ResolveAgain(k));
    }
    if quick {
        letters.push(L::ResolveOldest("j"));
    }
    letters.push(L::ArbiterConnect);
    letters.push(L::ArbiterDisconnect);
    letters.push(L::ArbiterReconnect);
    letters.push(L::Snapshot);
    let m = C13 { letters };
    let cfg = SeqConfig { max_depth: if quick { 7 } else { 9 }, workers: crate::util::workers(), max_states: 3_000_000, budget: std::time::Duration::from_secs(if quick { 40 } else { 1200 }) };
    let res = explore(&m, &cfg);
    super::seq_report(run, &m, &res, &cfg);
    run_cluster(run);
    run.assume("the arbiter answers a notice with the op id and version carried by that notice");
    run.assume("before any arbiter has registered a conflicting write may be refused without a record; afterwards it must be recorded");
    run.assume("the value of a key while some of its conflicts are still unresolved is not specified (the pre-conflict value or the latest resolution)");
}

// ---------------------------------------------------------------------------------------------
// cluster part: 2 nodes, arbiter attached to the primary or to the secondary, all delivery orders

use crate::net::{explore_net, settled_cluster, NetCfg, NetWorld, T};

fn build_cluster(arbiter_node: usize, writer_node: usize, writes: &[&str], resolutions: usize) -> Result<NetWorld, String> {
    build_cluster_n(2, arbiter_node, writer_node, writes, resolutions)
}

fn build_cluster_n(nodes: usize, arbiter_node: usize, writer_node: usize, writes: &[&str], resolutions: usize) -> Result<NetWorld, String> {
    build_cluster_from(nodes, 0, arbiter_node, writer_node, writes, resolutions)
}

/// `first_writer`: the node whose client wrote the key before the conflict (a key first written
/// through a secondary has a different version history there than on the primary)
fn build_cluster_from(nodes: usize, first_writer: usize, arbiter_node: usize, writer_node: usize, writes: &[&str], resolutions: usize) -> Result<NetWorld, String> {
    let mut w = settled_cluster(nodes)?;
    if first_writer == 0 {
        w.add_client(0, &[&format!("auth {} {}", USER, PWD), "create-db t tok arbiter", "use-db t tok", "set k i0", "set k i1"], false);
        w.run_to_quiescence(20000)?;
    } else {
        w.add_client(0, &[&format!("auth {} {}", USER, PWD), "create-db t tok arbiter"], false);
        w.run_to_quiescence(20000)?;
        w.clients.clear();
        w.add_client(first_writer, &["use-db t tok", "set k i0", "set k i1"], false);
        w.run_to_quiescence(20000)?;
    }
    w.clients.clear();
    w.add_client(arbiter_node, &["use-db t tok", "arbiter"], false);
    w.add_client(writer_node, &["use-db t tok"], false);
    w.run_to_quiescence(20000)?;
    w.clients[0].script = (0..resolutions).map(|i| format!("<resolve-next r{}>", i + 1)).collect();
    w.clients[0].done = false;
    w.clients[1].script = writes.iter().map(|s| s.to_string()).collect();
    w.clients[1].done = false;
    w.clients[1].replies.clear();
    w.traffic.clear();
    w.problems.clear();
    w.steps = 0;
    Ok(w)
}

fn cluster_oracle(w: &NetWorld, _resolutions: usize) -> Vec<(String, String)> {
    let mut out = vec![];
    let arb = &w.clients[0];
    let wr = &w.clients[1];
    if !wr.done {
        return vec![("writer-stuck".into(), "the writer could not finish".into())];
    }
    let notices = arb.inbox.iter().filter(|m| m.starts_with("resolve ")).count();
    let recorded = wr.replies.iter().filter(|r| r.1.contains("conflitct unresolved")).count();
    let refused = wr.replies.iter().filter(|r| r.1.contains("no arbiter")).count();
    if refused > 0 {
        // an arbiter is registered (somewhere in the cluster) before the writes start
        out.push((
            "conflict-refused-although-an-arbiter-is-registered".to_string(),
            format!("an arbiter is registered on n{} but {} conflicting write(s) on n{} were refused as if there were none; writer replies {:?}", arb.node + 1, refused, wr.node + 1, wr.replies.iter().map(|r| r.1.clone()).collect::<Vec<_>>()),
        ));
        return out;
    }
    if notices > recorded {
        // more notices than conflicts the writer was told about: one client write was queued twice
        out.push((
            "one-write-recorded-as-two-conflicts".to_string(),
            format!("the writer was told of {} conflict(s) but the arbiter on n{} received {} notice(s): {:?}", recorded, arb.node + 1, notices, arb.inbox.iter().filter(|m| m.starts_with("resolve ")).map(|m| m.split(' ').skip(4).collect::<Vec<_>>().join(" ")).collect::<Vec<_>>()),
        ));
        return out;
    }
    if notices != recorded {
        out.push((
            "conflict-not-delivered-to-registered-arbiter".to_string(),
            format!("{} conflict(s) were recorded but the registered arbiter on n{} received {} notice(s)", recorded, arb.node + 1, notices),
        ));
        return out;
    }
    if arb.answered != notices {
        return vec![("arbiter-stuck".into(), format!("{} notices, {} answered", notices, arb.answered))];
    }
    // every conflict is answered: all replicas agree, nothing is pending, the key is writable
    let views: Vec<_> = (0..w.nodes.len()).map(|i| crate::props::cluster::data_view(w, i)).collect();
    let k0 = views[0].get("t").and_then(|t| t.get("k")).cloned();
    for (i, v) in views.iter().enumerate() {
        let t = match v.get("t") {
            Some(t) => t,
            None => {
                out.push(("replica-differs-from-primary".into(), format!("database t missing on n{}", i + 1)));
                continue;
            }
        };
        match t.get("k") {
            Some((val, ver)) => {
                if Some(&(val.clone(), *ver)) != k0.as_ref() && k0.as_ref().map(|x| &x.0) != Some(val) {
                    out.push(("resolved-value-not-on-every-replica".to_string(), format!("after every conflict was answered n1 holds k={:?} and n{} holds {:?}", k0, i + 1, (val, ver))));
                }
                if *ver < 0 {
                    out.push(("key-not-writable-after-resolution".to_string(), format!("n{}: k has version {} after every conflict was answered", i + 1, ver)));
                }
                if notices > 0 && !(val.starts_with('r') || val.starts_with('c')) {
                    out.push(("resolution-lost".to_string(), format!("n{} holds k={:?} although {} resolution(s) were given", i + 1, val, notices)));
                }
            }
            None => out.push(("resolved-value-not-on-every-replica".to_string(), format!("n{} has no key k", i + 1))),
        }
        let pending = t.iter().filter(|(k, v)| k.starts_with("$conflicts_") && !v.0.starts_with("resolved")).count();
        if pending > 0 {
            out.push(("conflict-still-pending-after-resolution".to_string(), format!("n{} still lists {} conflict(s) as unresolved", i + 1, pending)));
        }
    }
    out
}

pub fn run_cluster(run: &mut Run) {
    crate::net::init_sleep_sites();
    let quick = run.quick();
    let deadline = std::time::Instant::now() + std::time::Duration::from_secs(if quick { 25 } else { 900 });
    // (arbiter node, conflicting writer's node, writes, resolutions, nodes, node that first wrote the key)
    let mut configs: Vec<(usize, usize, Vec<&str>, usize, usize, usize)> = vec![];
    for arbiter_node in 0..2 {
        for writer_node in 0..2 {
            configs.push((arbiter_node, writer_node, vec!["set-safe k 0 c1"], 1, 2, 0));
            if !quick {
                configs.push((arbiter_node, writer_node, vec!["set-safe k 0 c1", "set k c2"], 2, 2, 0));
            }
        }
    }
    // the key was first written through the secondary (its version history differs from the primary's there)
    for (arbiter_node, writer_node) in [(0usize, 0usize), (1, 0), (0, 1), (1, 1)] {
        if quick && writer_node == 1 {
            continue;
        }
        configs.push((arbiter_node, writer_node, vec!["set-safe k 0 c1"], 1, 2, 1));
    }
    if !quick {
        // three nodes: arbiter and writer on the primary, and arbiter on the primary with the writer on a secondary
        configs.push((0, 0, vec!["set-safe k 0 c1"], 1, 3, 0));
        configs.push((0, 2, vec!["set-safe k 0 c1"], 1, 3, 0));
        configs.push((0, 0, vec!["set-safe k 0 c1"], 1, 3, 2));
    }
    let mut states = 0;
    let mut transitions = 0;
    let mut replays = 0;
    let mut capped = 0;
    let mut skipped = 0;
    for (a, wn, writes, res, nodes, first) in configs.iter() {
        if std::time::Instant::now() > deadline {
            skipped += 1;
            continue;
        }
        let cfg = NetCfg { max_states: if quick { 30000 } else { 200000 }, max_path: 200, budget: std::time::Duration::from_secs(if quick { 12 } else { 200 }), workers: crate::util::workers(), by_deviations: false };
        let mk = || build_cluster_from(*nodes, *first, *a, *wn, writes, *res);
        let none = |_: &NetWorld, _: &[T]| -> Vec<(String, String)> { vec![] };
        let onq = |w: &NetWorld, _: &[T]| cluster_oracle(w, *res);
        match explore_net(&mk, &none, &onq, &cfg) {
            Ok((st, findings)) => {
                states += st.states;
                transitions += st.transitions;
                replays += st.replays;
                capped += st.cap.is_some() as u64;
                let name = if *nodes == 2 { format!("arbiter on n{}, writer on n{}: {}", a + 1, wn + 1, writes.join(" ; ")) } else { format!("{} nodes, arbiter on n{}, writer on n{}: {}", nodes, a + 1, wn + 1, writes.join(" ; ")) };
                let name = if *first == 0 { name } else { format!("first-writer=n{} {}", first + 1, name) };
                let role = |n: usize| if n == 0 { "primary" } else { "secondary" };
                let shape_pre = format!("{}{}arbiter on the {}, conflict on the {}, {} write(s)", if *first == 0 { "" } else { "key first written through a secondary, " }, if *nodes == 2 { String::new() } else { format!("{} nodes, ", nodes) }, role(*a), role(*wn), writes.len());
                crate::props::cluster::report_findings(run, "C13", &name, findings, &|f| format!("{}: {}", shape_pre, f.detail.split(';').next().unwrap_or("").split(" (").next().unwrap_or("").chars().take(60).collect::<String>().replace(|c: char| c.is_ascii_digit(), "#")));
            }
            Err(e) => {
                eprintln!("machinery: NET exploration (C13) failed: {}", e);
                std::process::exit(2);
            }
        }
    }
    run.cov_add("states", states);
    run.cov_add("transitions", transitions);
    run.cov_add("traces_validated_against_impl", replays);
    run.cov("cluster_configs", serde_json::json!(configs.len()));
    run.cov("cluster_states", serde_json::json!(states));
    run.cov("cluster_configs_capped", serde_json::json!(capped));
    run.cov("cluster_configs_skipped", serde_json::json!(skipped));
    let ex = run.coverage.get("exhaustive").and_then(|v| v.as_bool()).unwrap_or(false);
    run.cov("exhaustive", serde_json::json!(ex && capped == 0 && skipped == 0));
}

/// `./check replay <file>` for a C13 cluster counterexample
pub fn replay_cluster(script: &str, path: &[String]) -> i32 {
    crate::net::init_sleep_sites();
    // "arbiter on n2, writer on n2: set-safe k 0 c1 ; set k c2"
    let num = |s: &str, pat: &str| -> usize { s.split(pat).nth(1).and_then(|r| r.chars().next()).and_then(|c| c.to_digit(10)).unwrap_or(1) as usize - 1 };
    let (a, wn) = (num(script, "arbiter on n"), num(script, "writer on n"));
    let writes: Vec<&str> = script.split(": ").nth(1).unwrap_or("").split(" ; ").collect();
    let first = if script.starts_with("first-writer=n") { num(script, "first-writer=n") } else { 0 };
    let script = script.splitn(2, ' ').nth(if first == 0 { 0 } else { 1 }).map(|r| if first == 0 { script } else { r }).unwrap_or(script);
    let nodes = if script.starts_with("3 nodes") { 3 } else { 2 };
    let mut w = match build_cluster_from(nodes, first, a, wn, &writes, writes.len()) {
        Ok(w) => w,
        Err(e) => {
            eprintln!("machinery: {}", e);
            return 2;
        }
    };
    for (i, want) in path.iter().enumerate() {
        let en = w.enabled(true);
        let t = match en.iter().find(|t| format!("{:?}", t) == *want) {
            Some(t) => t.clone(),
            None => {
                eprintln!("replay divergence at step {}: {} is not enabled; enabled {:?}", i, want, en);
                w.shutdown();
                return 2;
            }
        };
        if let Err(e) = w.apply(&t) {
            eprintln!("machinery: {}", e);
            return 2;
        }
        let msgs: Vec<String> = w.traffic.drain(..).map(|(f, t, m)| format!("n{}->n{} {}", f + 1, t + 1, m)).collect();
        println!("{:4} {:16} {}", i, want, msgs.join(" | "));
    }
    println!("arbiter inbox: {:?}", w.clients[0].inbox);
    println!("writer replies: {:?}", w.clients[1].replies);
    for i in 0..w.nodes.len() {
        println!("n{}: {:?}", i + 1, crate::props::cluster::data_view(&w, i).get("t"));
    }
    let en = w.enabled(true);
    println!("enabled afterwards: {:?}", en);
    let r = if en.is_empty() { cluster_oracle(&w, writes.len()) } else { vec![] };
    println!("oracle: {:?}", r);
    w.shutdown();
    if r.is_empty() { 0 } else { 1 }
}
