//! C15 — pending-operation accounting is exact and acknowledgements are idempotent.
//! Explicit-state search over register(op,node) / ack(op,node) events on the real
//! register_pending_opp / `ack` command / get_pending_opp_copy / get_oplog_state.
use crate::report::Run;
use crate::seq::*;
use crate::world::*;
use std::collections::{BTreeMap, BTreeSet};

const NODES: [&str; 3] = ["a:1", "b:1", "c:1"];

#[derive(Clone, Debug)]
enum L {
    Register { op: u64, node: usize },
    Ack { op: u64, node: usize },
    AckForeign { op: u64 },
}

pub struct W {
    node: Node,
    admin: Session,
    /// reference: op -> (targeted, acked)
    model: BTreeMap<u64, (BTreeSet<usize>, BTreeSet<usize>)>,
    registered_once: BTreeSet<(u64, usize)>,
}

pub struct C15 {
    letters: Vec<L>,
    allow_reregister: bool,
}

fn v(clause: &str, detail: String) -> Vec<StepViolation> {
    vec![StepViolation { clause: clause.to_string(), detail, shape: None, soft: false }]
}

fn impl_view(w: &W) -> BTreeMap<u64, (usize, usize, Vec<(String, bool)>)> {
    let p = w.node.dbs.pending_opps.read().unwrap();
    p.iter()
        .map(|(id, m)| {
            let mut r: Vec<(String, bool)> = m.replications.lock().unwrap().iter().map(|(k, v)| (k.clone(), *v)).collect();
            r.sort();
            (*id, (m.count_replication(), m.count_acknowledged(), r))
        })
        .collect()
}

impl SeqModel for C15 {
    type World = W;
    fn letters(&self) -> Vec<String> {
        self.letters.iter().map(|l| format!("{:?}", l)).collect()
    }
    fn new_world(&self) -> W {
        let node = Node::new_single("c15");
        let mut admin = Session::new();
        admin.exec(&node, &format!("auth {} {}", USER, PWD));
        W { node, admin, model: BTreeMap::new(), registered_once: BTreeSet::new() }
    }
    fn drop_world(&self, w: W) {
        w.node.remove_dir()
    }
    fn key(&self, w: &W) -> String {
        format!("{:?}|{:?}|{:?}", w.model, impl_view(w), w.registered_once)
    }
    fn enabled(&self, w: &W, letter: usize) -> bool {
        match &self.letters[letter] {
            // the fan-out loop registers every (operation, member) once
            L::Register { op, node } => self.allow_reregister || !w.registered_once.contains(&(*op, *node)),
            _ => true,
        }
    }
    fn step(&self, w: &mut W, letter: usize) -> Vec<StepViolation> {
        w.node.ctx.install();
        let l = self.letters[letter].clone();
        let before_impl = impl_view(w);
        match &l {
            L::Register { op, node } => {
                let dbs = w.node.dbs.clone();
                let name = NODES[*node].to_string();
                let r = std::panic::catch_unwind(std::panic::AssertUnwindSafe(|| dbs.register_pending_opp(*op, "set k v".to_string(), &name)));
                match r {
                    Err(e) => return v("panic", format!("{:?}: {}", l, panic_msg(&e))),
                    Ok(msg) => {
                        if msg != format!("rp {} set k v", op) {
                            return v("wrong-message", format!("{:?} returned {:?}", l, msg));
                        }
                    }
                }
                w.registered_once.insert((*op, *node));
                let e = w.model.entry(*op).or_insert((BTreeSet::new(), BTreeSet::new()));
                e.0.insert(*node);
                e.1.remove(node);
            }
            L::Ack { op, node } => {
                let o = w.admin.exec(&w.node, &format!("ack {} {}", op, NODES[*node]));
                if o.panic.is_some() || o.resp != "Ok" {
                    return v("panic", format!("{:?}: {:?}", l, o));
                }
                let mut done = false;
                if let Some(e) = w.model.get_mut(op) {
                    if e.0.contains(node) {
                        e.1.insert(*node);
                    }
                    done = !e.0.is_empty() && e.0.is_subset(&e.1);
                }
                if done {
                    w.model.remove(op);
                }
            }
            L::AckForeign { op } => {
                let o = w.admin.exec(&w.node, &format!("ack {} zz:9", op));
                if o.panic.is_some() || o.resp != "Ok" {
                    return v("panic", format!("{:?}: {:?}", l, o));
                }
            }
        }
        w.node.drain_queues();
        // compare the accounting the node exposes with the reference
        let after = impl_view(w);
        for op in [1u64, 2, 3] {
            let m = w.model.get(&op);
            let want_pending = m.map(|e| !e.0.is_empty() && !e.0.is_subset(&e.1)).unwrap_or(false);
            let copy = w.node.dbs.get_pending_opp_copy(op);
            let is_pending = copy.is_some();
            if want_pending != is_pending {
                return v(
                    if want_pending { "unacknowledged-op-not-pending" } else { "acknowledged-op-still-pending" },
                    format!("after {:?}: op {} reference (targeted, acked)={:?} pending={} ; node says pending={} ({:?})", l, op, m, want_pending, is_pending, after.get(&op)),
                );
            }
            if let (Some(c), Some(e)) = (copy, m) {
                let want_rep = e.0.len();
                let want_ack = e.0.intersection(&e.1).count();
                if c.count_replication() != want_rep || c.count_acknowledged() != want_ack {
                    return v(
                        "counters-wrong",
                        format!("after {:?}: op {} reference targeted={:?} acked={:?}; node counts replicate={} ack={} map={:?}", l, op, e.0, e.1, c.count_replication(), c.count_acknowledged(), after.get(&op)),
                    );
                }
                if c.is_full_acknowledged() {
                    return v("acknowledged-op-still-pending", format!("after {:?}: op {} fully acknowledged but still listed", l, op));
                }
            }
        }
        let want_n = w.model.values().filter(|e| !e.0.is_empty() && !e.0.is_subset(&e.1)).count();
        let st = w.node.dbs.get_oplog_state();
        if !st.starts_with(&format!("pending_ops: {},", want_n)) {
            return v("pending-count-wrong", format!("after {:?}: reference says {} pending; node reports `{}`", l, want_n, st));
        }
        // an ack that the reference ignores must change nothing at all
        if let L::AckForeign { .. } = &l {
            let strip = |m: &BTreeMap<u64, (usize, usize, Vec<(String, bool)>)>| m.iter().map(|(k, v)| (*k, (v.0, v.1))).collect::<BTreeMap<_, _>>();
            if strip(&before_impl) != strip(&after) {
                return v("foreign-ack-changed-accounting", format!("{:?}: {:?} -> {:?}", l, before_impl, after));
            }
        }
        vec![]
    }
}

pub fn run(run: &mut Run) {
    let quick = run.quick();
    let ops: Vec<u64> = if quick { vec![1, 2] } else { vec![1, 2, 3] };
    let mut letters = vec![];
    for op in ops.iter() {
        for n in 0..3 {
            letters.push(L::Register { op: *op, node: n });
            letters.push(L::Ack { op: *op, node: n });
        }
        letters.push(L::AckForeign { op: *op });
    }
    let m = C15 { letters, allow_reregister: false };
    let cfg = SeqConfig { max_depth: if quick { 8 } else { 9 }, workers: crate::util::workers(), max_states: 5_000_000, budget: std::time::Duration::from_secs(if quick { 40 } else { 1200 }) };
    let res = explore(&m, &cfg);
    super::seq_report(run, &m, &res, &cfg);
    // no-merge pass on one operation, with repeated registration allowed (a re-sent operation)
    let mut l2 = vec![];
    for n in 0..3 {
        l2.push(L::Register { op: 1, node: n });
        l2.push(L::Ack { op: 1, node: n });
    }
    l2.push(L::AckForeign { op: 1 });
    let m2 = C15 { letters: l2, allow_reregister: false };
    let sub: Vec<usize> = (0..7).collect();
    let depth = if quick { 6 } else { 8 };
    let res2 = explore_all_histories(&m2, &[], &sub, depth, crate::util::workers(), std::time::Duration::from_secs(if quick { 20 } else { 600 }));
    run.cov("no_merge_pass", serde_json::json!({"ops": 1, "nodes": 3, "depth": depth, "histories": res2.histories, "transitions": res2.transitions, "complete": res2.exhausted_bound}));
    let ex = run.coverage.get("exhaustive").and_then(|v| v.as_bool()).unwrap_or(false);
    let cfg2 = SeqConfig { max_depth: depth, workers: 0, max_states: 0, budget: std::time::Duration::from_secs(0) };
    super::seq_report(run, &m2, &res2, &cfg2);
    run.cov("exhaustive", serde_json::json!(ex && res2.exhausted_bound));
    run.cov("depth_bound", serde_json::json!(cfg.max_depth));
    end_to_end(run, quick);
    ack_races_fan_out(run, quick);
    run.assume("each (operation, member) pair is registered at most once, as the fan-out loop does; acknowledgements may come at any time, repeatedly, from any name");
    run.assume("end to end: the same accounting is read in every state of cluster explorations (scripts of C04) - acks never exceed copies, and the pending table is empty once the cluster is silent");
}


/// the accounting observed end to end: every state of a cluster exploration
fn end_to_end(run: &mut Run, quick: bool) {
    use super::cluster::{build, ClusterSetup, Script};
    use crate::net::{explore_net, NetCfg, NetWorld, T};
    crate::net::init_sleep_sites();
    let scripts: Vec<Vec<(usize, &str)>> = vec![vec![(0, "set k v1")], vec![(1, "set k v1")], vec![(0, "set k v1"), (0, "increment c")], vec![(0, "remove k"), (1, "set k v2")], vec![(0, "create-db d2 tok2")]];
    let mut states = 0;
    let mut capped = 0;
    for nodes in vec![2, 3] {
        for (si, sc) in scripts.iter().enumerate() {
            // quick: one script on three nodes (two secondaries), state-capped and single-threaded
            if quick && nodes == 3 && si != 0 {
                continue;
            }
            let script = Script { ops: sc.iter().map(|(n, c)| (*n, c.to_string())).collect() };
            let setup = ClusterSetup { nodes, strategy: "none", init: vec!["set k v0".into(), "set c 5".into()] };
            let mk = || build(&setup, &script);
            let on_state = |w: &NetWorld, _: &[T]| -> Vec<(String, String)> {
                let mut out = vec![];
                // an operation stays pending while a copy of it, or the acknowledgement of a copy,
                // is still on its way
                for l in w.links.iter() {
                    if !l.open {
                        continue;
                    }
                    let pend = w.nodes[l.from].node.dbs.pending_opps.read().unwrap();
                    let ids_fwd = l.fwd.iter().filter_map(|m| m.strip_prefix("rp ").and_then(|r| r.split(' ').next()).and_then(|x| x.parse::<u64>().ok()));
                    let ids_back = l.back.iter().filter_map(|m| m.strip_prefix("ack ").and_then(|r| r.split(' ').next()).and_then(|x| x.parse::<u64>().ok()));
                    for id in ids_fwd.chain(ids_back) {
                        if !pend.contains_key(&id) {
                            out.push(("operation-not-pending-while-a-copy-is-unacknowledged".to_string(), format!("a copy (or its acknowledgement) is still in flight but the sender no longer lists the operation as pending; n{} -> n{} op {}", l.from + 1, l.to + 1, id)));
                        }
                    }
                }
                for (i, n) in w.nodes.iter().enumerate() {
                    let p = n.node.dbs.pending_opps.read().unwrap();
                    for (id, m) in p.iter() {
                        if m.count_acknowledged() > m.count_replication() {
                            out.push(("acks-exceed-copies".to_string(), format!("more acknowledgements than copies for an operation; n{} op {}: {} acks {} copies", i + 1, id, m.count_acknowledged(), m.count_replication())));
                        }
                        let acked = m.replications.lock().unwrap().values().filter(|b| **b).count();
                        if acked < m.count_acknowledged() {
                            out.push(("ack-counted-twice".to_string(), format!("the acknowledgement counter is above the number of nodes that acknowledged; n{} op {}", i + 1, id)));
                        }
                    }
                }
                out
            };
            let on_q = |w: &NetWorld, _: &[T]| -> Vec<(String, String)> {
                let mut out = vec![];
                for (i, n) in w.nodes.iter().enumerate() {
                    let p = n.node.dbs.pending_opps.read().unwrap().len();
                    if p != 0 {
                        out.push(("pending-after-all-acks".to_string(), format!("operations still pending when the cluster is silent; n{} reports {} pending", i + 1, p)));
                    }
                }
                out
            };
            let cfg = if quick && nodes == 3 {
                NetCfg { max_states: 120, max_path: 200, budget: std::time::Duration::from_secs(300), workers: 1, by_deviations: true }
            } else {
                NetCfg { max_states: if quick { 3000 } else { 30000 }, max_path: 200, budget: std::time::Duration::from_secs(if quick { 5 } else { 60 }), workers: crate::util::workers(), by_deviations: false }
            };
            match explore_net(&mk, &on_state, &on_q, &cfg) {
                Ok((st, findings)) => {
                    states += st.states;
                    capped += st.cap.is_some() as u64;
                    run.cov_add("states", st.states);
                    run.cov_add("transitions", st.transitions);
                    let name = format!("[{} nodes] {}", nodes, script.name());
                    super::cluster::report_findings(run, "C15", &name, findings, &|f| f.detail.split(';').next().unwrap_or("").to_string());
                }
                Err(e) => {
                    eprintln!("machinery: C15 cluster exploration failed: {}", e);
                    std::process::exit(2);
                }
            }
        }
    }
    run.cov("cluster_states_observed", serde_json::json!(states));
    run.cov("cluster_scripts_capped", serde_json::json!(capped));
}

// ---------------------------------------------------------------------------------------------
// the acknowledgement of one secondary racing the fan-out of the same operation to the next one

pub struct SendFut(pub std::pin::Pin<Box<dyn std::future::Future<Output = ()>>>);
// the future is built on the driver thread and then polled by exactly one managed thread
unsafe impl Send for SendFut {}

pub fn poll_fut(f: &mut SendFut) -> bool {
    let waker = futures::task::noop_waker();
    let mut cx = std::task::Context::from_waker(&waker);
    matches!(f.0.as_mut().poll(&mut cx), std::task::Poll::Pending)
}

struct RaceWorld {
    node: crate::world::Node,
    /// the members' link channels, in the order in which this world's member map is iterated
    rx: Vec<futures::channel::mpsc::Receiver<String>>,
    /// member names in that order (the fan-out walks a hash map, whose order differs from one map
    /// instance to the next: positions, not names, are what a configuration fixes)
    order: Vec<String>,
}

/// a primary with `members` secondaries (their link channels are the harness's), the real
/// replication loop polled by hand, database t with one key; returns the world, the loop, its feed
/// and the queued message of one more client write that has not been through the loop yet
fn race_world(members: usize) -> (RaceWorld, SendFut, futures::channel::mpsc::Sender<String>, String) {
    use crate::world::*;
    use futures::channel::mpsc::channel;
    let mut node = Node::new_single("c15race");
    let mut rx = vec![];
    for i in 0..members {
        let (tx, r) = channel::<String>(1000);
        node.dbs.add_cluster_member(nundb::bo::ClusterMember { name: format!("m{}:1", i + 1), role: nundb::bo::ClusterRole::Secoundary, sender: Some(tx) });
        rx.push(r);
    }
    let mut admin = Session::new();
    admin.exec(&node, &format!("auth {} {}", USER, PWD));
    admin.exec(&node, "create-db t tok none");
    admin.exec(&node, "use-db t tok");
    admin.exec(&node, "set k v0");
    let (mut feed, loop_rx) = channel::<String>(1000);
    let mut fut = SendFut(Box::pin(nundb::replication_ops::start_replication_thread(loop_rx, node.dbs.clone())));
    poll_fut(&mut fut);
    let (queued, _) = node.drain_queues();
    for m in queued {
        let _ = feed.try_send(m);
        poll_fut(&mut fut);
    }
    // everything so far is acknowledged by everybody
    let mut link = Session::new();
    link.exec(&node, &format!("auth {} {}", USER, PWD));
    for (i, r) in rx.iter_mut().enumerate() {
        while let Ok(Some(m)) = r.try_next() {
            if let Some(id) = m.strip_prefix("rp ").and_then(|x| x.split(' ').next()) {
                link.exec(&node, &format!("ack {} m{}:1", id, i + 1));
            }
        }
    }
    admin.exec(&node, "set k v1");
    let (queued, _) = node.drain_queues();
    let msg = queued.last().cloned().unwrap_or_default();
    let order: Vec<String> = {
        let st = node.dbs.cluster_state.lock().unwrap();
        let m = st.members.lock().unwrap();
        m.iter().map(|(n, _)| n.clone()).filter(|n| n.starts_with('m')).collect()
    };
    let mut by_name: std::collections::BTreeMap<String, futures::channel::mpsc::Receiver<String>> = rx.into_iter().enumerate().map(|(i, r)| (format!("m{}:1", i + 1), r)).collect();
    let rx = order.iter().map(|n| by_name.remove(n).unwrap()).collect();
    (RaceWorld { node, rx, order }, fut, feed, msg)
}

fn ack_races_fan_out(run: &mut Run, quick: bool) {
    use crate::ilv::*;
    use crate::report::Violation;
    use crate::world::*;
    // the operation id the loop will draw is fixed by the logical clock: learn it in a dry run
    let learn = |members: usize| -> Option<String> {
        let (mut w, mut fut, mut feed, msg) = race_world(members);
        w.node.ctx.install();
        let _ = feed.try_send(msg);
        poll_fut(&mut fut);
        let id = w.rx[0].try_next().ok().flatten().and_then(|m| m.strip_prefix("rp ").and_then(|x| x.split(' ').next()).map(|s| s.to_string()));
        w.node.remove_dir();
        id
    };
    let mut configs: Vec<(usize, Vec<usize>)> = vec![(2, vec![0]), (2, vec![1]), (2, vec![0, 1])];
    if !quick {
        configs.push((3, vec![0]));
        configs.push((3, vec![1]));
        configs.push((3, vec![0, 2]));
    }
    let mut total_exec = 0u64;
    let mut total_points = 0u64;
    let mut capped = 0;
    let mut outcomes: std::collections::BTreeSet<String> = Default::default();
    for (members, ackers) in configs.iter() {
        let id = match learn(*members) {
            Some(i) => i,
            None => {
                eprintln!("machinery: C15 race stage: the dry run sent nothing to the first member");
                std::process::exit(2);
            }
        };
        let shape = format!("{} secondaries, the fan-out of one write racing the acknowledgement(s) of the secondaries served {:?} (0 = first)", members, ackers);
        let mut found: Vec<Violation> = vec![];
        let mut mk = || {
            let (w, fut, feed, msg) = race_world(*members);
            let ctx = w.node.ctx.clone();
            let mut bodies: Vec<Box<dyn FnOnce(&std::sync::Arc<Sched>) -> String + Send>> = vec![];
            let mut fut = fut;
            let mut feed = feed;
            bodies.push(Box::new(move |s: &std::sync::Arc<Sched>| {
                let st = s.seq.fetch_add(1, std::sync::atomic::Ordering::SeqCst);
                let _ = feed.try_send(msg);
                let alive = poll_fut(&mut fut);
                // the loop and its feed stay alive until the execution is judged
                std::mem::forget(feed);
                std::mem::forget(fut);
                let en = s.seq.fetch_add(1, std::sync::atomic::Ordering::SeqCst);
                format!("loop-{}|{}|{}", if alive { "waiting" } else { "ended" }, st, en)
            }));
            for a in ackers.iter() {
                let dbs = w.node.dbs.clone();
                let line = format!("ack {} {}", id, w.order[*a]);
                bodies.push(Box::new(move |s: &std::sync::Arc<Sched>| {
                    let st = s.seq.fetch_add(1, std::sync::atomic::Ordering::SeqCst);
                    let (mut c, _r) = nundb::bo::Client::new_empty_and_receiver();
                    c.auth.store(true, std::sync::atomic::Ordering::SeqCst);
                    let r = resp_str(&nundb::process_request::process_request(&line, &dbs, &mut c));
                    let en = s.seq.fetch_add(1, std::sync::atomic::Ordering::SeqCst);
                    format!("{}|{}|{}", r, st, en)
                }));
            }
            (w, ctx, bodies)
        };
        let mut check = |mut w: RaceWorld, x: &Execution<String>, choices: &[usize]| {
            let schedule: Vec<String> = x.points.iter().map(|p| p.what.clone()).collect();
            let mut push = |clause: &str, detail: String| {
                if !found.iter().any(|f| f.clause == clause) {
                    found.push(Violation { clause: clause.to_string(), shape: shape.clone(), detail, replay: serde_json::json!({"engine":"ilv","property":"C15","members":members,"ackers":ackers,"choices":choices,"schedule":schedule}) });
                }
            };
            if let Some(d) = &x.deadlock {
                push("deadlock", d.clone());
                return;
            }
            if x.results.iter().any(|r| r.is_none()) {
                push("handler-panic", format!("a thread panicked: {:?}", crate::world::PANIC_LOG.lock().unwrap().last()));
                w.node.remove_dir();
                return;
            }
            w.node.ctx.install();
            // what really went out, and to whom
            let mut sent: Vec<Option<String>> = vec![];
            for r in w.rx.iter_mut() {
                let mut got = None;
                while let Ok(Some(m)) = r.try_next() {
                    if let Some(i) = m.strip_prefix("rp ").and_then(|x| x.split(' ').next()) {
                        got = Some(i.to_string());
                    }
                }
                sent.push(got);
            }
            let real_id: Option<u64> = sent.iter().flatten().next().and_then(|s| s.parse().ok());
            let real_id = match real_id {
                Some(i) => i,
                None => {
                    push("copy-not-sent", format!("the write was sent to nobody; schedule {:?}", schedule));
                    w.node.remove_dir();
                    return;
                }
            };
            // members that were sent the copy and whose acknowledgement was not issued at all
            let silent: Vec<usize> = (0..*members).filter(|m| sent[*m].is_some() && !(ackers.contains(m) && real_id.to_string() == id)).collect();
            let pend = w.node.dbs.get_pending_opp_copy(real_id);
            let table = w.node.dbs.pending_opps.read().unwrap().len();
            outcomes.insert(format!("{} members, ackers {:?}: pending {} acks {:?}", members, ackers, pend.is_some(), pend.as_ref().map(|p| p.count_acknowledged())));
            if !silent.is_empty() {
                match &pend {
                    None => push(
                        "operation-not-pending-while-a-copy-is-unacknowledged",
                        format!("op {} was sent to {:?} (fan-out order {:?}), members {:?} never acknowledged it, yet it is no longer pending (table size {}); schedule {:?}", real_id, sent, w.order, silent.iter().map(|m| w.order[*m].clone()).collect::<Vec<_>>(), table, schedule),
                    ),
                    Some(p) => {
                        if p.is_full_acknowledged() {
                            push("operation-fully-acknowledged-too-early", format!("op {} counts as fully acknowledged although {:?} never acknowledged; schedule {:?}", real_id, silent, schedule));
                        }
                        if p.count_acknowledged() > p.count_replication() {
                            push("acks-exceed-copies", format!("op {}: {} acks, {} copies", real_id, p.count_acknowledged(), p.count_replication()));
                        }
                    }
                }
            }
            // an acknowledgement issued after the fan-out had finished (its call began after the loop's poll returned)
            // finds its member registered: it must be counted, whatever else runs at the same time
            let times: Vec<(u64, u64)> = x.results.iter().map(|r| {
                let r = r.clone().unwrap_or_default();
                let mut it = r.rsplitn(3, '|');
                let en = it.next().and_then(|v| v.parse().ok()).unwrap_or(0);
                let st = it.next().and_then(|v| v.parse().ok()).unwrap_or(0);
                (st, en)
            }).collect();
            if real_id.to_string() == id {
                for (ai, a) in ackers.iter().enumerate() {
                    if sent[*a].is_some() && times[ai + 1].0 > times[0].1 {
                        let counted = match &pend {
                            None => true,
                            Some(p) => p.replications.lock().unwrap().get(&w.order[*a]).cloned().unwrap_or(false),
                        };
                        if !counted {
                            push("acknowledgement-issued-after-the-fan-out-not-counted", format!("op {}: the acknowledgement of {} was issued after the fan-out had finished and returned, but the operation is still pending without it ({} of {} acks); schedule {:?}", real_id, w.order[*a], pend.as_ref().map(|p| p.count_acknowledged()).unwrap_or(0), pend.as_ref().map(|p| p.count_replication()).unwrap_or(0), schedule));
                        }
                    }
                }
            }
            // afterwards every member acknowledges (again): nothing may stay pending
            let mut link = Session::new();
            link.exec(&w.node, &format!("auth {} {}", USER, PWD));
            for m in 0..*members {
                link.exec(&w.node, &format!("ack {} {}", real_id, w.order[m]));
            }
            let left = w.node.dbs.pending_opps.read().unwrap().len();
            if left != 0 {
                push("pending-after-all-acks", format!("every member acknowledged op {} but {} operation(s) are still pending; schedule {:?}", real_id, left, schedule));
            }
            w.node.remove_dir();
        };
        match explore(if quick { 2 } else { 3 }, 200_000, std::time::Duration::from_secs(if quick { 15 } else { 300 }), &mut mk, &mut check) {
            Ok(st) => {
                total_exec += st.executions;
                total_points += st.points;
                capped += st.capped.is_some() as u64;
            }
            Err(RunError::Hang(m)) => {
                eprintln!("machinery: ILV C15 {}: {}", shape, m);
                std::process::exit(2);
            }
        }
        for v in found {
            run.violate(v);
        }
    }
    run.cov("ack_vs_fan_out_configs", serde_json::json!(configs.len()));
    run.cov("ack_vs_fan_out_executions", serde_json::json!(total_exec));
    run.cov("ack_vs_fan_out_scheduling_points", serde_json::json!(total_points));
    run.cov("ack_vs_fan_out_configs_capped", serde_json::json!(capped));
    run.cov("ack_vs_fan_out_distinct_outcomes", serde_json::json!(outcomes.into_iter().collect::<Vec<_>>()));
    run.cov_add("states", total_exec);
    run.cov_add("transitions", total_points);
    run.cov_add("traces_validated_against_impl", total_exec);
    run.assume("ack / fan-out race: the real replication loop (one poll with one queued write) and the real `ack` command run as threads under the controlled scheduler; scheduling points are the acquisitions of the pending-operation table's lock and of the database map locks");
}
