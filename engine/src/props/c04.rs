//! C04 — live replication converges: every node ends equal to the primary. NET engine.
use super::cluster::*;
use crate::net::*;
use crate::report::Run;
use serde_json::json;
use std::time::Duration;

pub fn op_menu() -> Vec<&'static str> {
    vec!["set k v1", "set k  two words ", "set-safe k 1 s1", "remove k", "increment c", "create-db d2 tok2", "create-user bob bt", "set-permissions bob rw k*|r c*", "snapshot false t"]
}

/// does the command write this key?
fn wrote_cmd(c: &str, key: &str) -> bool {
    let mut p = c.split(' ');
    let cmd = p.next().unwrap_or("");
    let arg = p.next().unwrap_or("");
    match cmd {
        "set" | "set-safe" | "remove" | "increment" | "resolve" => arg == key,
        "create-user" => key == format!("$$user_{}", arg),
        "set-permissions" => key == format!("$$permission_${}", arg),
        _ => false,
    }
}

/// one finding per differing (database, key): clause + canonical kind (no concrete values)
pub fn converged(w: &NetWorld, sc: &Script) -> Vec<(String, String)> {
    let mut out = vec![];
    let prim = (0..w.nodes.len()).find(|i| w.nodes[*i].alive && w.role(*i) == nundb::bo::ClusterRole::Primary);
    let p = match prim {
        Some(p) => p,
        None => return vec![("no-primary".into(), "no node is primary at quiescence".into())],
    };
    let pv = data_view(w, p);
    // keys a node wrote itself in this script (the origin of a forwarded write)
    let wrote = |node: usize, key: &str| {
        sc.ops.iter().any(|(n, c)| {
            *n == node && {
                let mut p = c.split(' ');
                let cmd = p.next().unwrap_or("");
                let arg = p.next().unwrap_or("");
                match cmd {
                    "set" | "set-safe" | "remove" | "increment" | "resolve" => arg == key,
                    "create-user" => key == format!("$$user_{}", arg),
                    "set-permissions" => key == format!("$$permission_${}", arg),
                    _ => false,
                }
            }
        })
    };
    for i in 0..w.nodes.len() {
        if i == p || !w.nodes[i].alive {
            continue;
        }
        let v = data_view(w, i);
        let mut dbs: std::collections::BTreeSet<&String> = pv.keys().collect();
        dbs.extend(v.keys());
        for db in dbs {
            match (pv.get(db), v.get(db)) {
                (Some(_), None) => out.push(("replica-differs-from-primary".to_string(), format!("database missing on a secondary; {} on n{}", db, i + 1))),
                (None, Some(_)) => out.push(("replica-differs-from-primary".to_string(), format!("database only on a secondary; {} on n{}", db, i + 1))),
                (Some(a), Some(b)) => {
                    let mut keys: std::collections::BTreeSet<&String> = a.keys().collect();
                    keys.extend(b.keys());
                    for k in keys {
                        // who wrote the key in this script, and with which command: a value
                        // difference is only a known finding for specific races
                        let writers: Vec<String> = sc
                            .ops
                            .iter()
                            .filter(|(n, _)| wrote(*n, k))
                            .filter_map(|(n, c)| {
                                let cmd = c.split(' ').next().unwrap_or("");
                                if wrote_cmd(c, k) { Some(format!("{}:{}", if *n == p { "primary".to_string() } else { "secondary".to_string() }, cmd)) } else { None }
                            })
                            .collect();
                        let origin = if wrote(i, k) { format!(" [the secondary issued a write to it, writers {}]", writers.join(" ")) } else { String::new() };
                        let kind = match (a.get(k), b.get(k)) {
                            (Some(x), Some(y)) if x == y => continue,
                            (Some(x), Some(y)) if x.0 == y.0 => format!("same value, secondary version {} the primary's by {}{}", if y.1 > x.1 { "ahead of" } else { "behind" }, (y.1 - x.1).abs(), origin),
                            (Some(_), Some(_)) => format!("value differs{}", origin),
                            (Some(_), None) => format!("live on the primary, absent on the secondary{}", origin),
                            (None, Some(_)) => format!("absent on the primary, live on the secondary{}", origin),
                            (None, None) => continue,
                        };
                        out.push(("replica-differs-from-primary".to_string(), format!("{}; {}.{} primary {:?} n{} {:?}", kind, db, k, a.get(k), i + 1, b.get(k))));
                    }
                }
                _ => {}
            }
        }
    }
    out
}

pub fn scripts(nodes: usize, all_pairs: bool) -> Vec<Script> {
    let menu = op_menu();
    let mut out = vec![];
    for n in 0..nodes {
        for op in menu.iter() {
            out.push(Script { ops: vec![(n, op.to_string())] });
        }
    }
    // single operations with other argument shapes (not part of the pair menu): an amount, a
    // value that starts with a number, keys that do not exist yet, an empty value
    for n in 0..nodes {
        for op in ["increment c 5", "set k 7 up", "set fresh brand-new", "remove nokey", "increment fresh", "set-safe fresh 3 v3", "set k"] {
            out.push(Script { ops: vec![(n, op.to_string())] });
        }
    }
    // two operations: both on the primary (same session), and one per node
    let pairs: Vec<(&str, &str)> = if !all_pairs {
        vec![("set k v1", "set k v2"), ("set k v1", "set k v1"), ("set k v1", "remove k"), ("increment c", "increment c"), ("set k v1", "increment c"), ("set-safe k 1 s1", "set-safe k 1 s2"), ("remove k", "set k v2"),
            // a plain set that carries the value the other node's operation leads to (c is 5: 6 after the increment),
            // and a set of the value the key already holds
            ("increment c", "set c 6"), ("set c 6", "increment c"), ("set k v0b", "set k v9")]
    } else {
        let mut p = vec![];
        for a in menu.iter() {
            for b in menu.iter() {
                p.push((*a, *b));
            }
        }
        p
    };
    for (a, b) in pairs.iter() {
        out.push(Script { ops: vec![(0, a.to_string()), (0, b.to_string())] });
        out.push(Script { ops: vec![(0, a.to_string()), (1, b.to_string())] });
        if nodes > 2 {
            out.push(Script { ops: vec![(1, a.to_string()), (2, b.to_string())] });
        }
    }
    out
}

pub fn run(run: &mut Run) {
    crate::net::init_sleep_sites();
    let quick = run.quick();
    let deadline = std::time::Instant::now() + Duration::from_secs(if quick { 90 } else { 1500 });
    // quick: 2 nodes, single operations and selected pairs; thorough: + all pairs on 2 nodes and
    // the quick script set on 3 nodes
    let mut plan: Vec<(usize, &'static str, Script)> = scripts(2, false).into_iter().map(|s| (2, "none", s)).collect();
    // a newer-strategy database: stale versioned writes are resolved, and must be on every node
    let newer: Vec<Vec<(usize, &str)>> = vec![
        vec![(0, "set-safe k 0 s1")],
        vec![(1, "set-safe k 0 s1")],
        vec![(0, "set k v1"), (0, "set-safe k 0 s2")],
        vec![(0, "set-safe k 0 s1"), (1, "set-safe k 0 s2")],
        vec![(0, "set-safe k 5 s1"), (0, "set k v2")],
    ];
    for sc in newer.iter() {
        plan.push((2, "newer", Script { ops: sc.iter().map(|(n, c)| (*n, c.to_string())).collect() }));
    }
    // administrative writes to one name through two different secondaries (needs three nodes)
    let via_two_secondaries: Vec<Vec<(usize, &str)>> = vec![
        vec![(1, "create-user bob bt"), (2, "create-user bob bt2")],
        vec![(1, "set-permissions bob rw k*"), (2, "set-permissions bob r k*")],
        vec![(1, "set k v1"), (2, "set k v2")],
    ];
    for sc in via_two_secondaries.iter() {
        plan.push((3, "none", Script { ops: sc.iter().map(|(n, c)| (*n, c.to_string())).collect() }));
    }
    if !quick {
        plan.extend(scripts(3, false).into_iter().map(|s| (3, "none", s)));
        for sc in newer.iter() {
            plan.push((3, "newer", Script { ops: sc.iter().map(|(n, c)| (*n, c.to_string())).collect() }));
        }
        plan.extend(scripts(2, true).into_iter().skip(2 * (op_menu().len() + 7)).map(|s| (2, "none", s)));
    }
    let scs: Vec<Script> = plan.iter().map(|p| p.2.clone()).collect();
    let nodes = if quick { 2 } else { 3 };
    let mut total = NetStats::default();
    let mut capped = 0;
    let mut skipped = 0;
    for (nn, strategy, sc) in plan.iter() {
        if std::time::Instant::now() > deadline {
            skipped += 1;
            continue;
        }
        let setup = ClusterSetup { nodes: *nn, strategy, init: vec!["set k v0".into(), "set k v0b".into(), "set c 5".into()] };
        // the 3-node scripts of the quick tier cannot be completed in its time: one thread, by
        // ascending number of deviations from the default schedule, capped by a state count, so
        // that the explored part is the same on every run
        let cfg = if quick && *nn == 3 {
            NetCfg { max_states: 100, max_path: 300, budget: Duration::from_secs(300), workers: 1, by_deviations: true }
        } else {
            NetCfg { max_states: if quick { 4000 } else { 40000 }, max_path: 300, budget: Duration::from_secs(if quick { 6 } else { 40 }), workers: crate::util::workers(), by_deviations: false }
        };
        let mk = || build(&setup, sc);
        let none = |_: &NetWorld, _: &[T]| -> Vec<(String, String)> { vec![] };
        let conv = |w: &NetWorld, _p: &[T]| converged(w, sc);
        match explore_net(&mk, &none, &conv, &cfg) {
            Ok((st, findings)) => {
                total.states += st.states;
                total.transitions += st.transitions;
                total.replays += st.replays;
                total.quiescent_states += st.quiescent_states;
                total.max_path = total.max_path.max(st.max_path);
                if st.cap.is_some() {
                    capped += 1;
                }
                let name = format!("[{} nodes, {} db] {}", nn, strategy, sc.name());
                report_findings(run, "C04", &name, findings, &|f| f.detail.split(';').next().unwrap_or("").to_string());
            }
            Err(e) => {
                eprintln!("machinery: NET exploration of {} failed: {}", sc.name(), e);
                std::process::exit(2);
            }
        }
    }
    concurrent_clients_on_the_primary(run, quick);
    real_transport_stage(run, if quick { 2 } else { 3 });
    run.cov("scripts", json!(scs.len()));
    run.cov("nodes", json!(nodes));
    run.cov_add("states", total.states);
    run.cov_add("transitions", total.transitions);
    run.cov_add("traces_validated_against_impl", total.replays);
    run.cov("quiescent_states_checked", json!(total.quiescent_states));
    run.cov("max_path_length", json!(total.max_path));
    run.cov("scripts_capped", json!(capped));
    run.cov("scripts_skipped_by_deadline", json!(skipped));
    run.cov("exhaustive", json!(capped == 0 && skipped == 0));
    run.sample(json!({"script": scs[0].name(), "alphabet": op_menu()}));
    run.assume("the cluster is brought up through the real join / election path with a fixed delivery policy, then every FIFO-respecting interleaving of supervisor, replication-loop, link-delivery and client transitions is explored");
    run.assume("link model = handshake lines of auth_on_replication + FIFO queues + ok/error line per command + EOF sequence of tcp_ops::handle_client (DESIGN 6.1)");
}

/// Clients of the primary running at the same time (the NET stage above runs one handler at a
/// time): every interleaving, at lock granularity plus the point between "applied" and "queued for
/// the secondaries", of two clients issuing one or two commands on one key; afterwards a replica
/// that receives the primary's replication queue in order must hold what the primary holds.
fn concurrent_clients_on_the_primary(run: &mut Run, quick: bool) {
    use super::c02_ilv::{run_configs, Config};
    use super::conc::*;
    let setup = Setup { strategy: "none", init: vec!["set k 1".into(), "set k 1".into(), "set c 5".into()], session_init: (0..2).map(|_| vec!["use-db t tok".to_string()]).collect(), check_replica: true };
    let menu = |t: usize| -> Vec<String> { vec![format!("set k {}", 10 + t), "increment k".to_string(), "increment c".to_string(), "remove k".to_string(), format!("set-safe k 2 s{}", t)] };
    let mut configs = vec![];
    for a in menu(0).iter() {
        for b in menu(1).iter() {
            configs.push(Config { linearizable: false, programs: vec![vec![a.clone()], vec![b.clone()]], bound: if quick { 2 } else { 99 }, max_exec: 100_000, budget: Duration::from_secs(if quick { 8 } else { 120 }) });
        }
    }
    if !quick {
        for a in menu(0).iter() {
            for a2 in menu(0).iter() {
                for b in menu(1).iter() {
                    configs.push(Config { linearizable: false, programs: vec![vec![a.clone(), a2.clone()], vec![b.clone()]], bound: 2, max_exec: 100_000, budget: Duration::from_secs(120) });
                }
            }
        }
    }
    let none = |_: &[OpRec], _: &FinalView, _: &[String]| -> Option<(String, String)> { None };
    let (ex, pts, capped, _) = run_configs(run, "C04", &setup, &configs, &none);
    run.cov("concurrent_client_configs", json!(configs.len()));
    run.cov("concurrent_client_executions", json!(ex));
    run.cov("concurrent_client_configs_capped", json!(capped));
    run.cov_add("states", ex);
    run.cov_add("transitions", pts);
    run.cov_add("traces_validated_against_impl", ex);
    run.assume("concurrent clients: scheduling points are the lock acquisitions of the shim RwLock and the point between applying a command and queueing it for replication; the replica is a fresh node fed the primary's queue over one FIFO link");
}

/// The link model against the real transport (wire.rs), and this property's oracle on the real
/// cluster: after every operation of the scenario every node process serves the primary's data.
fn real_transport_stage(run: &mut Run, nodes: usize) {
    let out = match crate::wire::stage(nodes, "none") {
        Ok(o) => o,
        Err(e) => {
            eprintln!("machinery: real-transport stage: {}", e);
            std::process::exit(2);
        }
    };
    let mut seen = std::collections::BTreeSet::new();
    for (clause, shape, detail) in crate::wire::real_convergence(&out) {
        if seen.insert(shape.clone()) {
            run.violate(crate::report::Violation { clause, shape, detail, replay: json!({"engine":"wire","nodes":nodes}) });
        }
    }
    if let Some(u) = &out.real.unsettled {
        run.violate(crate::report::Violation {
            clause: "replication-does-not-settle".into(),
            shape: "the real cluster does not settle".into(),
            detail: format!("real cluster ({} node processes over TCP): {}", nodes, u),
            replay: json!({"engine":"wire","nodes":nodes}),
        });
    } else if !out.conf.differences.is_empty() {
        eprintln!("machinery: the link model of the NET engine does not conform to the real transport ({} nodes, {} real runs):", nodes, out.real_runs);
        for d in out.conf.differences.iter() {
            eprintln!("  {}", d);
        }
        std::process::exit(2);
    }
    run.cov_add("traces_validated_against_impl", out.conf.links_compared as u64);
    run.cov("link_model_conformance", crate::wire::evidence(&out));
    run.assume("real-transport stage: one schedule of the real system (the operating system's); operations are issued one at a time, each after every copy has been acknowledged and the links have been silent for 250 ms");
}
