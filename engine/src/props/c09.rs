//! C09 — every command acts only with the credential it requires. SEQ over the matrix
//! {credential prefixes} x {permission lists} x {every command word x key shapes}.
use super::lines::*;
use crate::report::Run;
use crate::seq::*;
use crate::world::*;
use nundb::bo::*;
use std::collections::BTreeMap;

pub struct W {
    node: Node,
    admin: Session,
    sess: Session,
    /// reference: permission list per user of db t, as last set by the administrator
    perms: BTreeMap<String, String>,
    /// keeps the member's channel open
    _to_member: futures::channel::mpsc::Receiver<String>,
}

// (`xiwr` is spelt with the four permission letters: a kind must come from the kinds field, not from the pattern text)
const KEYS: &[&str] = &["kx", "xk", "akb", "zz", "xiwr", "$$secret"];

fn full_state(w: &W) -> String {
    let all = dump_all(&w.node.dbs);
    let members: Vec<String> = {
        let cs = w.node.dbs.cluster_state.lock().unwrap();
        let m = cs.members.lock().unwrap();
        let mut v: Vec<String> = m.iter().map(|(k, v)| format!("{}:{}", k, v.role)).collect();
        v.sort();
        v
    };
    let snapq = w.node.dbs.to_snapshot.read().map(|g| g.clone()).unwrap_or_default();
    let pending: Vec<(u64, usize, usize, Vec<(String, bool)>)> = w
        .node
        .dbs
        .pending_opps
        .read()
        .map(|p| {
            let mut v: Vec<_> = p
                .iter()
                .map(|(id, m)| {
                    let mut r: Vec<(String, bool)> = m.replications.lock().unwrap().iter().map(|(k, v)| (k.clone(), *v)).collect();
                    r.sort();
                    (*id, m.count_replication(), m.count_acknowledged(), r)
                })
                .collect();
            v.sort();
            v
        })
        .unwrap_or_default();
    let watchers: Vec<_> = all.keys().map(|n| with_db(&w.node.dbs, n, |db| watcher_counts(db))).collect();
    let strip: BTreeMap<_, BTreeMap<_, _>> = all
        .iter()
        .map(|(n, d)| (n.clone(), d.iter().map(|(k, v)| (k.clone(), (v.value.clone(), v.version, v.state))).collect()))
        .collect();
    format!(
        "{:?}|{:?}|{:?}|{:?}|role={}|{:?}|{:?}|{:?}|auth={}",
        strip,
        members,
        snapq,
        pending,
        w.node.dbs.get_role(),
        watchers,
        w.sess.client.selected_db_name(),
        w.sess.client.selected_db_user_name(),
        w.sess.client.is_admin_auth()
    )
}

fn pattern_matches(pat: &str, key: &str) -> bool {
    let core = pat.replace('*', "");
    if pat.ends_with('*') {
        key.starts_with(&core)
    } else if pat.starts_with('*') {
        key.ends_with(&core)
    } else {
        key.contains(pat)
    }
}

/// reference permission semantics: "<kinds> <pattern>[,<pattern>]" entries separated by '|'
fn list_grants(list: &str, kind: char, key: &str) -> bool {
    list.split('|').any(|entry| {
        let mut it = entry.splitn(2, ' ');
        let kinds = it.next().unwrap_or("");
        let pats = it.next().unwrap_or("");
        kinds.contains(kind) && pats.split(',').any(|p| pattern_matches(p, key))
    })
}

#[derive(Debug, PartialEq)]
enum Need {
    Admin,
    Data { key: Option<String>, kind: Option<char> },
    Free,
}

fn classify(req: &Request) -> Need {
    use Request::*;
    match req {
        Get { key } | GetSafe { key } | Watch { key } => Need::Data { key: Some(key.clone()), kind: Some('r') },
        Set { key, .. } => Need::Data { key: Some(key.clone()), kind: Some('w') },
        Resolve { key, .. } => Need::Data { key: Some(key.clone()), kind: Some('w') },
        Increment { key, .. } => Need::Data { key: Some(key.clone()), kind: Some('i') },
        Remove { key } => Need::Data { key: Some(key.clone()), kind: Some('x') },
        UnWatch { .. } | UnWatchAll {} | Keys { .. } | Arbiter {} => Need::Data { key: None, kind: None },
        Auth { .. } | UseDb { .. } | ReplicateRequest { .. } => Need::Free,
        ListCommands {} => Need::Free,
        _ => Need::Admin,
    }
}

pub struct C09 {
    letters: Vec<String>,
    expandable: Vec<bool>,
    n_perm_letters: usize,
}

fn perm_lists(quick: bool) -> Vec<(String, String)> {
    let mut out = vec![];
    let pats = ["k*", "*k", "k"];
    for mask in 1..16u32 {
        let kinds: String = ['r', 'w', 'i', 'x'].iter().enumerate().filter(|(i, _)| mask & (1 << i) != 0).map(|(_, c)| *c).collect();
        for (pi, p) in pats.iter().enumerate() {
            if quick && !(kinds.len() == 1 || kinds.len() == 4 || (mask as usize + pi) % 3 == 0) {
                continue;
            }
            out.push(("bob".to_string(), format!("{} {}", kinds, p)));
        }
    }
    out.push(("bob".to_string(), "rwix *".to_string()));
    out.push(("bob".to_string(), "r k*|w *k".to_string()));
    out.push(("bob".to_string(), "rx zz,akb".to_string()));
    // one statement, several patterns of different forms (prefix, suffix, contains)
    out.push(("bob".to_string(), "r k*,*b".to_string()));
    out.push(("bob".to_string(), "rw *k,a*".to_string()));
    out.push(("bob".to_string(), "rx zz,k*,*k".to_string()));
    // a wider statement followed by one whose kinds are a strict subset of it (and the other way round): every
    // statement keeps its own kinds for its own patterns
    out.push(("bob".to_string(), "rwix k*|r zz".to_string()));
    out.push(("bob".to_string(), "rw k*|w akb".to_string()));
    out.push(("bob".to_string(), "rw k*|r *b|w zz".to_string()));
    out.push(("bob".to_string(), "r zz|rwix k*".to_string()));
    // patterns whose own text contains the letters of kinds the statement does not grant
    out.push(("bob".to_string(), "r xiwr*".to_string()));
    out.push(("bob".to_string(), "w *xiwr".to_string()));
    out.push(("bob".to_string(), "i xiwr".to_string()));
    out.push(("bob".to_string(), "x xi*|r zz".to_string()));
    // kinds fields that repeat a letter or spell the letters in another order (a kinds field is
    // a set of letters, whatever its spelling)
    for kinds in ["ww", "rr", "ii", "xx", "wwr", "xxi", "iiw", "rrx", "xiwr", "wwww", "rrrr", "wxw"] {
        out.push(("bob".to_string(), format!("{} k*", kinds)));
    }
    out.push(("all".to_string(), "r k*".to_string()));
    out.push(("all".to_string(), "rwix *".to_string()));
    out
}

impl C09 {
    pub fn new(quick: bool) -> C09 {
        let mut letters = lines_for_keys(KEYS, "t", true);
        letters.extend(
            ["election candidate 5 x:1", "election win", "debug list-dbs", "debug pending-ops", "debug process-info", "snapshot false t", "create-db z ztok", "create-user eve e1", "set-permissions bob rwix *", "join x:1", "leave x:1", "ack 5 x:1", "replicate-since x:1 0", "replicate-snapshot t false"]
                .iter()
                .map(|s| s.to_string()),
        );
        let mut letters = dedup_by_parse(letters);
        let mut expandable = vec![false; letters.len()];
        // administrator credentials that are nearly right: a prefix (here: nothing), an extension, another case,
        // the right password under a nearly right user name, fields swapped or missing
        for l in ["auth u", "auth", "auth u pp", "auth u px", "auth u P", "auth uu p", "auth U p", "auth  p", "auth p u", "auth u  p", "auth u p p"] {
            if !letters.iter().any(|x| x == l) {
                letters.push(l.to_string());
                expandable.push(true);
            }
        }
        for l in ["auth u wrong", "use-db t tok", "use-db t wrong", "use-db t bob bt", "use-db t bob wrong", "use-db nodb tok", "use-db u tok2", "use-db t eve e1"] {
            if !letters.iter().any(|x| x == l) {
                letters.push(l.to_string());
                expandable.push(true);
            } else {
                let i = letters.iter().position(|x| x == l).unwrap();
                expandable[i] = true;
            }
        }
        let pl = perm_lists(false);
        let n_perm_letters = pl.len();
        for (u, l) in pl {
            letters.push(format!("<admin> set-permissions {} {}", u, l));
            expandable.push(true);
        }
        letters.push("<admin> remove $$permission_$bob".to_string());
        expandable.push(true);
        C09 { letters, expandable, n_perm_letters }
    }
}

fn v(clause: &str, detail: String) -> Vec<StepViolation> {
    vec![StepViolation { clause: clause.to_string(), detail, shape: None, soft: false }]
}

const REFUSAL_MSGS: &[&str] = &["error no-db-selected\n", "permission denied\n"];

impl SeqModel for C09 {
    type World = W;
    fn letters(&self) -> Vec<String> {
        self.letters.clone()
    }
    fn new_world(&self) -> W {
        let node = Node::new_single("c09");
        let mut admin = Session::new();
        admin.exec(&node, &format!("auth {} {}", USER, PWD));
        admin.exec(&node, "create-db t tok none");
        admin.exec(&node, "create-db u tok2 none");
        admin.exec(&node, "use-db t tok");
        for k in ["kx", "xk", "akb", "zz"] {
            admin.exec(&node, &format!("set {} 5", k));
        }
        admin.exec(&node, "set $$secret alpha");
        admin.exec(&node, "create-user bob bt");
        // the node is the primary of a cluster: a secondary x:1 is a member, and one operation
        // sent to it is still unacknowledged - cluster commands have something to act upon
        let (tx, rx) = futures::channel::mpsc::channel::<String>(1000);
        node.dbs.add_cluster_member(ClusterMember { name: "x:1".to_string(), role: ClusterRole::Secoundary, sender: Some(tx) });
        node.dbs.register_pending_opp(5, "replicate t kx -1 5".to_string(), &"x:1".to_string());
        node.dbs.register_pending_opp(5, "replicate t kx -1 5".to_string(), &"y:1".to_string());
        let mut w = W { node, admin, sess: Session::new(), perms: BTreeMap::new(), _to_member: rx };
        w.node.drain_queues();
        w
    }
    fn drop_world(&self, w: W) {
        w.node.remove_dir()
    }
    fn key(&self, w: &W) -> String {
        format!("{}|{:?}", full_state(w), w.perms)
    }
    fn is_leaf(&self, letter: usize, _depth: usize) -> bool {
        !self.expandable[letter]
    }
    fn step(&self, w: &mut W, letter: usize) -> Vec<StepViolation> {
        w.node.ctx.install();
        let line = self.letters[letter].clone();
        if let Some(rest) = line.strip_prefix("<admin> ") {
            let o = w.admin.exec(&w.node, rest);
            w.node.drain_queues();
            if o.resp != "Ok" {
                return v("reply-mismatch", format!("admin `{}`: {:?}", rest, o));
            }
            if rest.starts_with("remove ") {
                w.perms.remove("bob");
                return vec![];
            }
            let mut it = rest.splitn(3, ' ');
            it.next();
            let user = it.next().unwrap().to_string();
            w.perms.insert(user, it.next().unwrap().to_string());
            return vec![];
        }
        let before = full_state(w);
        let sel_before = (w.sess.client.selected_db_name(), w.sess.client.selected_db_user_name());
        let admin_auth = w.sess.client.is_admin_auth();
        let o = w.sess.exec(&w.node, &line);
        w.node.drain_queues();
        if let Some(p) = &o.panic {
            return v("panic", format!("`{}` panicked: {}", line, p));
        }
        let after = full_state(w);
        // unwrap rp: the inner request is judged, the ack line is transport noise
        let mut req = match std::panic::catch_unwind(|| Request::parse(line.trim_matches('\n'))).unwrap_or(Err("parser panic".into())) {
            Ok(r) => r,
            Err(_) => {
                if after != before {
                    return v("unparseable-line-changed-state", format!("`{}`", line));
                }
                return vec![];
            }
        };
        let mut msgs = o.msgs.clone();
        while let Request::ReplicateRequest { request_str, .. } = &req {
            if !msgs.is_empty() && msgs[0].starts_with("ack ") {
                msgs.remove(0);
            }
            match Request::parse(request_str) {
                Ok(r) => req = r,
                Err(_) => {
                    if after != before {
                        return v("unparseable-line-changed-state", format!("`{}`", line));
                    }
                    return vec![];
                }
            }
        }
        let is_error = o.resp.starts_with("Error(") || o.resp.starts_with("VersionError(");
        let denied = |why: &str| -> Vec<StepViolation> {
            if after != before {
                return v("unauthorized-command-changed-state", format!("`{}` ({}): state before {} after {}", line, why, before, after));
            }
            // the statement asks for "changes nothing, returns no data"; an `ok` without effect
            // (the election-active form) is tolerated, a value is not
            if o.resp.starts_with("Value(") || o.resp.starts_with("Set(") {
                return v("unauthorized-command-returned-data", format!("`{}` ({}): reply {:?}", line, why, o));
            }
            if msgs.iter().any(|m| !REFUSAL_MSGS.contains(&m.as_str())) {
                return v("unauthorized-command-returned-data", format!("`{}` ({}): messages {:?}", line, why, msgs));
            }
            vec![]
        };
        match classify(&req) {
            Need::Free => {
                if let Request::Auth { user, password } = &req {
                    // only the administrator's exact user name and password authenticate
                    let valid = user == USER && password == PWD;
                    if !valid {
                        if !admin_auth && w.sess.client.is_admin_auth() {
                            return v("wrong-admin-credentials-accepted", format!("`{}` (user {:?}, password {:?}) authenticated the session; reply {:?}", line, user, password, o));
                        }
                        if after != before {
                            return v("unauthorized-command-changed-state", format!("`{}` (wrong administrator credentials): {} -> {}", line, before, after));
                        }
                    }
                }
                if let Request::UseDb { name, token, user_name } = &req {
                    let valid = with_db(&w.node.dbs, name, |db| {
                        let d = dump_db(db);
                        let want = match user_name {
                            Some(u) => d.get(&format!("$$user_{}", u)),
                            None => d.get("$$token"),
                        };
                        want.map(|k| &k.value == token && k.state != ValueStatus::Deleted as u8).unwrap_or(false)
                    })
                    .unwrap_or(false);
                    let sel_after = (w.sess.client.selected_db_name(), w.sess.client.selected_db_user_name());
                    if !valid {
                        if sel_after != sel_before {
                            return v("failed-use-db-changed-selection", format!("`{}`: {:?} -> {:?}", line, sel_before, sel_after));
                        }
                        if !is_error {
                            return v("invalid-token-accepted", format!("`{}`: {:?}", line, o));
                        }
                        if after != before {
                            return v("unauthorized-command-changed-state", format!("`{}` (invalid use-db): {} -> {}", line, before, after));
                        }
                    } else if is_error {
                        return v("granted-access-denied", format!("`{}` is a valid selection but got {:?}", line, o));
                    }
                }
                vec![]
            }
            Need::Admin => {
                if admin_auth {
                    vec![]
                } else {
                    denied("administrative command without admin auth")
                }
            }
            Need::Data { key, kind } => {
                if admin_auth && sel_before.0.is_some() {
                    return vec![];
                }
                let db = match &sel_before.0 {
                    None => return denied("data command without a selected database"),
                    Some(d) => d.clone(),
                };
                let (key, kind) = match (key, kind) {
                    (Some(k), Some(c)) => (k, c),
                    _ => return vec![], // selection is all these need
                };
                if key.starts_with("$$") {
                    return denied("secure key from a non-admin session");
                }
                // effective permission list: the session's user, or "all" for a database-token session
                let user = sel_before.1.clone().unwrap_or("all".to_string());
                let list = if db == "t" { w.perms.get(&user).cloned() } else { None };
                let granted = match (&list, sel_before.1.is_some()) {
                    (Some(l), _) => list_grants(l, kind, &key),
                    (None, true) => false,
                    (None, false) => true,
                };
                if !granted {
                    return denied(&format!("user {} list {:?} does not grant '{}' on {}", user, list, kind, key));
                }
                if o.resp == "Error(permission denied\n)" || o.resp == "Error(error no-db-selected\n)" {
                    return v("granted-access-denied", format!("`{}`: user {} list {:?} grants '{}' on {} but reply {:?}", line, user, list, kind, key, o));
                }
                vec![]
            }
        }
    }
}

pub fn run(run: &mut Run) {
    let quick = run.quick();
    let m = C09::new(quick);
    let cfg = SeqConfig {
        max_depth: if quick { 3 } else { 4 },
        workers: crate::util::workers(),
        max_states: 3_000_000,
        budget: std::time::Duration::from_secs(if quick { 45 } else { 1500 }),
    };
    let res = explore(&m, &cfg);
    super::seq_report(run, &m, &res, &cfg);
    run.cov("permission_lists", serde_json::json!(m.n_perm_letters));
    // narrow and deep, without state merging: permission changes (incl. revocation) interleaved
    // with the user's own data commands, so that per-session or cached implementation state the
    // state key does not know about cannot hide a stale decision
    let deep: Vec<&str> = vec![
        "<admin> set-permissions bob rwix *",
        "<admin> set-permissions bob r k*",
        "<admin> set-permissions bob w *k",
        "<admin> remove $$permission_$bob",
        "get kx",
        "set kx v",
        "set xk v",
        "remove kx",
        "increment akb",
    ];
    let sub: Vec<usize> = deep.iter().map(|d| m.letters.iter().position(|l| l == d).unwrap_or_else(|| panic!("deep letter {} missing", d))).collect();
    let depth = if quick { 5 } else { 7 };
    let bob = m.letters.iter().position(|l| l == "use-db t bob bt").unwrap();
    let res2 = explore_all_histories(&m, &[bob], &sub, depth, crate::util::workers(), std::time::Duration::from_secs(if quick { 30 } else { 1200 }));
    run.cov("deep_pass", serde_json::json!({"prefix": ["use-db t bob bt"], "alphabet": deep, "depth": depth, "histories": res2.histories, "transitions": res2.transitions, "complete": res2.exhausted_bound, "merging": false}));
    let cfg2 = SeqConfig { max_depth: depth, workers: 0, max_states: 0, budget: std::time::Duration::from_secs(0) };
    let exhaustive1 = run.coverage.get("exhaustive").and_then(|v| v.as_bool()).unwrap_or(false);
    super::seq_report(run, &m, &res2, &cfg2);
    run.cov("exhaustive", serde_json::json!(exhaustive1 && res2.exhausted_bound));
    run.cov("depth_bound", serde_json::json!(cfg.max_depth));
    run.assume("prefixes range over credential letters (auth wrong, use-db with valid/invalid db and user tokens) and administrator permission changes; every command line of the alphabet is then tried once in every reached state");
    run.assume("`election <x>` (election-active form) only queues a broadcast; queued traffic is not counted as state");
    run.assume("`arbiter` registration is judged as needing a selection only (notices are only produced on arbiter databases)");
}
