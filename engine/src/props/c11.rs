//! C11 — a crash during a snapshot never damages previously persisted data. CRASH engine:
//! for a family of before/after datasets, the directory state before every mutating system call
//! of the snapshot is recovered with the real start-up + load code.
use super::c06::{compare_loaded, snap_state_of, SnapState};
use crate::crash;
use crate::report::{Run, Violation};
use crate::world::*;
use nundb::bo::*;
use serde_json::json;
use std::collections::BTreeMap;

fn val(n: usize, c: char) -> String {
    std::iter::repeat(c).take(n).collect()
}

#[derive(Clone, Debug)]
pub struct Scenario {
    pub name: String,
    /// dataset persisted by a completed snapshot before the interrupted one
    pub before: Vec<(String, String)>,
    /// in-memory changes after it: (op, key, value)
    pub changes: Vec<(String, String, String)>,
    pub reclaim: bool,
    pub order: usize,
    /// how the files the interrupted snapshot starts from came about (see `HISTORIES`)
    pub history: usize,
    /// the interrupted snapshot names both databases and the second one is dirty too
    pub both_dbs: bool,
}

/// Snapshot histories that precede the interrupted snapshot. The persisted dataset is read back
/// from the disk afterwards, so a history only has to leave the keys `a`, `bb`, `ccc` alive.
pub const HISTORIES: [&str; 6] = ["one-snapshot", "second-incremental", "after-reclaim", "tombstone-on-disk", "restarted", "removed-then-restarted"];

pub fn scenarios(quick: bool) -> Vec<Scenario> {
    let base: Vec<(String, String)> = vec![("a".into(), val(3, 'a')), ("bb".into(), val(240, 'b')), ("ccc".into(), val(3, 'c'))];
    let mut out = vec![];
    let sizes: &[usize] = &[3, 240, 260, 600];
    type Ch = (String, String, String);
    let mut change_sets: Vec<(String, Vec<Ch>)> = vec![];
    change_sets.push(("none".into(), vec![]));
    for s in sizes {
        change_sets.push((format!("new-key-{}B", s), vec![("set".into(), "d".into(), val(*s, 'd'))]));
        change_sets.push((format!("update-a-{}B", s), vec![("set".into(), "a".into(), val(*s, 'A'))]));
        change_sets.push((format!("update-bb-{}B+new", s), vec![("set".into(), "bb".into(), val(*s, 'B')), ("set".into(), "d".into(), val(5, 'd'))]));
    }
    // every key of the database is dirty, system keys included (nothing the old files hold stays referenced)
    for s in [3usize, 300] {
        change_sets.push((
            format!("every-key-rewritten-{}B", s),
            vec![
                ("set".into(), "a".into(), val(s, 'A')),
                ("set".into(), "bb".into(), val(s, 'B')),
                ("set".into(), "ccc".into(), val(s, 'C')),
                ("admin-set".into(), "$$token".into(), "tok".into()),
                ("connect".into(), "".into(), "".into()),
            ],
        ));
    }
    change_sets.push(("remove-bb".into(), vec![("remove".into(), "bb".into(), "".into())]));
    change_sets.push(("remove-a+update-ccc".into(), vec![("remove".into(), "a".into(), "".into()), ("set".into(), "ccc".into(), val(9, 'C'))]));
    change_sets.push(("increment-new+update".into(), vec![("increment".into(), "n".into(), "".into()), ("set".into(), "a".into(), val(4, 'A'))]));
    let singles = change_sets.len();
    if !quick {
        // every pair of single changes on two different keys
        let menu: Vec<(String, Ch)> = vec![
            ("new-d-3B".into(), ("set".into(), "d".into(), val(3, 'd'))),
            ("new-d-260B".into(), ("set".into(), "d".into(), val(260, 'd'))),
            ("new-e-600B".into(), ("set".into(), "e".into(), val(600, 'e'))),
            ("upd-a-3B".into(), ("set".into(), "a".into(), val(3, 'A'))),
            ("upd-a-260B".into(), ("set".into(), "a".into(), val(260, 'A'))),
            ("upd-bb-3B".into(), ("set".into(), "bb".into(), val(3, 'B'))),
            ("upd-bb-600B".into(), ("set".into(), "bb".into(), val(600, 'B'))),
            ("upd-ccc-same".into(), ("set".into(), "ccc".into(), val(3, 'c'))),
            ("rm-a".into(), ("remove".into(), "a".into(), "".into())),
            ("rm-bb".into(), ("remove".into(), "bb".into(), "".into())),
            ("inc-n".into(), ("increment".into(), "n".into(), "".into())),
        ];
        for i in 0..menu.len() {
            for j in (i + 1)..menu.len() {
                if menu[i].1 .1 == menu[j].1 .1 {
                    continue;
                }
                change_sets.push((format!("{}+{}", menu[i].0, menu[j].0), vec![menu[i].1.clone(), menu[j].1.clone()]));
            }
        }
    }
    for (ci, (name, ch)) in change_sets.iter().enumerate() {
        for history in 0..HISTORIES.len() {
            for both_dbs in [false, true] {
                // the two-database snapshot is tried on the plain history only (quick) / on every history (thorough), single changes only
                if both_dbs && (ci >= singles || (quick && history != 0)) {
                    continue;
                }
                for reclaim in [false, true] {
                    let n_user = if reclaim { 4 } else { ch.len() };
                    let all_orders = (1..=n_user.min(3)).product::<usize>().max(1);
                    // pairs and non-plain histories: first and last order only
                    let orders: Vec<usize> = if (history != 0 && quick) || ci >= singles { if all_orders > 1 { vec![0, all_orders - 1] } else { vec![0] } } else { (0..all_orders).collect() };
                    for order in orders {
                        let tag = format!("{}{}", if history == 0 { "".to_string() } else { format!("@{}", HISTORIES[history]) }, if both_dbs { "@both-dbs" } else { "" });
                        out.push(Scenario { name: format!("{}{} reclaim={} order={}", name, tag, reclaim, order), before: base.clone(), changes: ch.clone(), reclaim, order, history, both_dbs });
                    }
                }
            }
        }
    }
    out
}

struct Prepared {
    node: Node,
    admin: Session,
    tok: Session,
}

fn prepare(sc: &Scenario) -> Prepared {
    let ctx = NodeCtx::new(fresh_dir("c11"), 1000);
    let node = Node::start(ctx, "n1:1", 1);
    node.set_role(ClusterRole::Primary);
    let mut admin = Session::new();
    admin.exec(&node, &format!("auth {} {}", USER, PWD));
    admin.exec(&node, "create-db t tok none");
    admin.exec(&node, "create-db u tok2 arbiter");
    admin.exec(&node, "use-db u tok2");
    admin.exec(&node, "set z zz");
    admin.exec(&node, "use-db t tok");
    let mut tok = Session::new();
    tok.exec(&node, "use-db t tok");
    for (k, v) in sc.before.iter() {
        tok.exec(&node, &format!("set {} {}", k, v));
    }
    admin.exec(&node, "snapshot false t|u");
    node.run_snapshot_queue();
    let mut p = Prepared { node, admin, tok };
    match HISTORIES[sc.history] {
        "one-snapshot" => {}
        // a second incremental snapshot: key records updated in place, values appended, dead space in the values file
        "second-incremental" => {
            p.tok.exec(&p.node, &format!("set a {}", val(5, 'x')));
            p.tok.exec(&p.node, &format!("set bb {}", val(270, 'y')));
            p.admin.exec(&p.node, "snapshot false t");
            p.node.run_snapshot_queue();
        }
        // the files were rewritten by a reclaiming snapshot
        "after-reclaim" => {
            p.tok.exec(&p.node, &format!("set a {}", val(5, 'x')));
            p.admin.exec(&p.node, "snapshot true t");
            p.node.run_snapshot_queue();
        }
        // a removed key's record is on the disk
        "tombstone-on-disk" => {
            p.tok.exec(&p.node, "set gone soon");
            p.admin.exec(&p.node, "snapshot false t");
            p.node.run_snapshot_queue();
            p.tok.exec(&p.node, "remove gone");
            p.admin.exec(&p.node, "snapshot false t");
            p.node.run_snapshot_queue();
        }
        // the node was restarted: what it holds in memory (addresses, states) comes from the loader;
        // in the second form the first user key of the file was removed before (its record stays in the key file,
        // the records of the other keys come after it)
        "restarted" | "removed-then-restarted" => {
            if HISTORIES[sc.history] == "removed-then-restarted" {
                p.tok.exec(&p.node, "remove a");
                p.admin.exec(&p.node, "snapshot false t");
                p.node.run_snapshot_queue();
            }
            let dir = p.node.ctx.dir.clone();
            p.node.shutdown();
            let ctx = NodeCtx::new(dir, 500_000);
            let node = Node::start(ctx, "n1:1", 1);
            node.set_role(ClusterRole::Primary);
            let mut admin = Session::new();
            admin.exec(&node, &format!("auth {} {}", USER, PWD));
            admin.exec(&node, "use-db t tok");
            let mut tok = Session::new();
            tok.exec(&node, "use-db t tok");
            p = Prepared { node, admin, tok };
        }
        other => panic!("unknown history {}", other),
    }
    p
}

fn load_copy(dir: &std::path::Path) -> Result<std::sync::Arc<Databases>, String> {
    let copy = fresh_dir("c11-load");
    crash::copy_tree(dir, &copy);
    let ctx2 = NodeCtx::new(copy.clone(), 900_000);
    let r = std::panic::catch_unwind(std::panic::AssertUnwindSafe(|| Node::start(ctx2, "n1:1", 1)));
    let res = match r {
        Ok(n) => {
            let d = n.dbs.clone();
            n.shutdown();
            Ok(d)
        }
        Err(e) => Err(format!("{} at {}", panic_msg(&e), take_panic_loc().unwrap_or_default().replace("/repo/", ""))),
    };
    let _ = std::fs::remove_dir_all(&copy);
    res
}

/// class of the syscall after which (i.e. before the next one) the crash lands
fn op_class(op: &str) -> String {
    let mut p = op.split(' ');
    let kind = p.next().unwrap_or("");
    let path = p.next().unwrap_or("");
    let file = path.rsplit('/').next().unwrap_or("");
    let role = if file.ends_with(".keys.old") {
        "keys.old"
    } else if file.ends_with(".values.old") {
        "values.old"
    } else if file.ends_with(".keys") && file.contains("-nun.data") {
        "keys"
    } else if file.ends_with(".values") {
        "values"
    } else if file.contains("madadata") {
        "metadata"
    } else if file == "keys-nun.keys" {
        "keymap"
    } else if file == "is-oplog.valid" {
        "oplog-flag"
    } else {
        file
    };
    format!("{}({})", kind, role)
}

pub fn run(run: &mut Run) {
    let quick = run.quick();
    match crash::self_test() {
        Ok(n) => run.cov("interposition_selftest_ops", json!(n)),
        Err(e) => {
            eprintln!("machinery: libc interposition self-test failed: {}", e);
            std::process::exit(2);
        }
    }
    let scs = scenarios(quick);
    let mut crash_states = 0u64;
    let mut distinct = std::collections::BTreeSet::new();
    let mut syscalls = 0u64;
    for sc in scs.iter() {
        let mut p = prepare(sc);
        p.node.ctx.install();
        // what is on disk before the interrupted snapshot
        let kind0 = if sc.reclaim { "reclaim" } else { "incremental" };
        let name0 = sc.name.split(" reclaim=").next().unwrap_or("").split('@').next().unwrap_or("").to_string();
        let before_dbs = match load_copy(&p.node.ctx.dir) {
            Ok(d) => d,
            Err(e) => {
                // not even the completed snapshots of the scenario's history can be started from
                run.violate(Violation {
                    clause: "startup-panic".into(),
                    shape: format!("{} [{}] no kill at all: the completed snapshots before the interrupted one ({})", kind0, name0, HISTORIES[sc.history]),
                    detail: format!("scenario `{}`: start-up on the directory left by completed snapshots: {}", sc.name, e),
                    replay: json!({"engine":"crash","property":"C11","scenario":sc.name,"crash_after_syscalls":-1}),
                });
                p.node.remove_dir();
                continue;
            }
        };
        let disk0: BTreeMap<String, SnapState> = ["t", "u"].iter().map(|d| (d.to_string(), snap_state_of(&before_dbs, d).unwrap())).collect();
        let mut extra_sessions = vec![];
        for (op, k, v) in sc.changes.iter() {
            let line = match op.as_str() {
                "set" => format!("set {} {}", k, v),
                "remove" => format!("remove {}", k),
                "admin-set" => {
                    p.admin.exec(&p.node, &format!("set {} {}", k, v));
                    continue;
                }
                "connect" => {
                    // one more session on the database: $connections changes
                    let mut s = Session::new();
                    s.exec(&p.node, "use-db t tok");
                    extra_sessions.push(s);
                    continue;
                }
                _ => format!("increment {}", k),
            };
            p.tok.exec(&p.node, &line);
        }
        if sc.both_dbs {
            p.admin.exec(&p.node, "use-db u tok2");
            p.admin.exec(&p.node, &format!("set z {}", val(7, 'Z')));
            p.admin.exec(&p.node, "set y new-in-u");
            p.admin.exec(&p.node, "use-db t tok");
        }
        p.admin.exec(&p.node, &format!("snapshot {} {}", sc.reclaim, if sc.both_dbs { "t|u" } else { "t" }));
        let n_user = if sc.reclaim {
            with_db(&p.node.dbs, "t", |db| dump_db(db).keys().filter(|k| !k.starts_with('$')).count()).unwrap_or(0)
        } else {
            with_db(&p.node.dbs, "t", |db| dump_db(db).iter().filter(|(k, v)| !k.starts_with('$') && v.state != ValueStatus::Ok as u8).count()).unwrap_or(0)
        };
        *p.node.ctx.user_perm.lock().unwrap() = if n_user <= 4 { crate::util::permutations(n_user).get(sc.order).cloned() } else { None };
        let out = fresh_dir("c11-states");
        crash::begin(&p.node.ctx.dir, &out);
        let r = std::panic::catch_unwind(std::panic::AssertUnwindSafe(|| p.node.run_snapshot_queue()));
        let ops = crash::end();
        if r.is_err() {
            eprintln!("machinery: snapshot itself panicked in scenario {}", sc.name);
            std::process::exit(2);
        }
        syscalls += ops.len() as u64;
        // what the completed snapshot leaves
        let after_dbs = match load_copy(&out.join(format!("state-{}", ops.len()))) {
            Ok(d) => d,
            Err(e) => {
                run.violate(Violation {
                    clause: "startup-panic".into(),
                    shape: format!("{} [{}] no kill at all: the snapshot ran to its end", kind0, name0),
                    detail: format!("scenario `{}`: start-up on the directory left by the completed snapshot: {}", sc.name, e),
                    replay: json!({"engine":"crash","property":"C11","scenario":sc.name,"crash_after_syscalls":ops.len()}),
                });
                let _ = std::fs::remove_dir_all(&out);
                p.node.remove_dir();
                continue;
            }
        };
        let disk1: BTreeMap<String, SnapState> = ["t", "u"].iter().map(|d| (d.to_string(), snap_state_of(&after_dbs, d).unwrap())).collect();
        for k in 0..=ops.len() {
            let dir = out.join(format!("state-{}", k));
            crash_states += 1;
            distinct.insert(dir_digest(&dir));
            let after_op = if k == 0 { "nothing".to_string() } else { op_class(&ops[k - 1]) };
            let before_op = if k == ops.len() { "end".to_string() } else { op_class(&ops[k]) };
            crate::util::set_context(&format!("start-up on the directory left by a kill: {} [{}] crash after {} before {} || scenario `{}`, after {} of {} system calls", if sc.reclaim { "reclaim" } else { "incremental" }, sc.name.split(" reclaim=").next().unwrap_or(""), after_op, before_op, sc.name, k, ops.len()));
            let kind = if sc.reclaim { "reclaim" } else { "incremental" };
            let change_name = sc.name.split(" reclaim=").next().unwrap_or("").split('@').next().unwrap_or("").to_string();
            // `class`: what the shape says between the brackets. Clauses about the whole directory name the change set;
            // clauses about one key name the key's role in the interrupted snapshot, the size class of the value
            // being written and what was loaded instead (so that a finding is keyed by what goes wrong, not by the
            // scenario it was first seen in).
            let mut report = |clause: &str, class: String, detail: String| {
                run.violate(Violation {
                    clause: clause.to_string(),
                    shape: format!("{} [{}] crash after {} before {}", kind, class, after_op, before_op),
                    detail: format!("scenario `{}`, crash after {} of {} system calls ({:?}): {}", sc.name, k, ops.len(), ops.get(k.saturating_sub(1)), detail),
                    replay: json!({"engine":"crash","property":"C11","scenario":sc.name,"crash_after_syscalls":k,"syscalls":ops}),
                });
            };
            match load_copy(&dir) {
                Err(e) => report("startup-panic", change_name.clone(), e),
                Ok(dbs) => {
                    for dbname in ["u", "t"] {
                        if dbname == "u" && !sc.both_dbs {
                            // untouched database u: exactly as before
                            let mut only_u = BTreeMap::new();
                            only_u.insert("u".to_string(), disk0["u"].clone());
                            if let Err(e) = compare_loaded(&dbs, &only_u) {
                                report("neighbour-database-changed", change_name.clone(), e);
                            }
                            continue;
                        }
                        let dbtag = if dbname == "t" { "" } else { "second-db " };
                        match snap_state_of(&dbs, dbname) {
                            None => report("database-missing", format!("{}{}", dbtag, change_name), format!("database {} not loaded", dbname)),
                            Some(got) => {
                                let d0 = &disk0[dbname].live;
                                let d1 = &disk1[dbname].live;
                                let mut keys: std::collections::BTreeSet<&String> = d0.keys().collect();
                                keys.extend(d1.keys());
                                keys.extend(got.live.keys());
                                for key in keys {
                                    if key == "$connections" {
                                        continue;
                                    }
                                    let g = got.live.get(key);
                                    if g != d0.get(key) && g != d1.get(key) {
                                        let short = |x: Option<&(String, i32)>| x.map(|(v, ver)| format!("({:?}…{}B, v{})", v.chars().take(6).collect::<String>(), v.len(), ver)).unwrap_or("absent".into());
                                        let clause = if d0.get(key) == d1.get(key) {
                                            "untouched-key-changed"
                                        } else if g.is_none() {
                                            "persisted-key-missing"
                                        } else {
                                            "value-never-stored"
                                        };
                                        let role = if key.starts_with('$') {
                                            "system-key"
                                        } else {
                                            match (d0.get(key), d1.get(key)) {
                                                (None, Some(_)) => "new-key",
                                                (Some(_), None) => "removed-key",
                                                (a, b) if a == b => "untouched-key",
                                                _ => "updated-key",
                                            }
                                        };
                                        let size = match d1.get(key) {
                                            None => "-",
                                            Some((v, _)) if v.len() < 250 => "small",
                                            Some(_) => "large",
                                        };
                                        let loaded = match g {
                                            None => "absent".to_string(),
                                            Some((v, ver)) => {
                                                let what = if !v.is_empty() && v.bytes().all(|b| b == 0) {
                                                    "zeros"
                                                } else if d0.get(key).map(|x| &x.0 == v).unwrap_or(false) {
                                                    "old-value"
                                                } else if d1.get(key).map(|x| &x.0 == v).unwrap_or(false) {
                                                    "new-value"
                                                } else {
                                                    "other-bytes"
                                                };
                                                let whichver = if d1.get(key).map(|x| x.1 == *ver).unwrap_or(false) {
                                                    "new-version"
                                                } else if d0.get(key).map(|x| x.1 == *ver).unwrap_or(false) {
                                                    "old-version"
                                                } else {
                                                    "other-version"
                                                };
                                                format!("{}/{}", what, whichver)
                                            }
                                        };
                                        report(clause, format!("{}{} {} -> {}", dbtag, role, size, loaded), format!("key {}: loaded {}, on disk before {}, being written {}", key, short(g), short(d0.get(key)), short(d1.get(key))));
                                    }
                                }
                                if got.id != disk0[dbname].id || got.strategy != disk0[dbname].strategy {
                                    report("metadata-changed", format!("{}{}", dbtag, change_name), format!("id/strategy {}/{} -> {}/{}", disk0[dbname].id, disk0[dbname].strategy, got.id, got.strategy));
                                }
                            }
                        }
                    }
                }
            }
        }
        if run.coverage.get("samples").and_then(|s| s.as_array()).map(|a| a.len()).unwrap_or(0) < 3 {
            run.sample(json!({"scenario": sc.name, "syscalls": ops}));
        }
        let _ = std::fs::remove_dir_all(&out);
        p.node.remove_dir();
    }
    run.cov("scenarios", json!(scs.len()));
    run.cov("syscalls_logged", json!(syscalls));
    run.cov("evaluations", json!(crash_states));
    run.cov("distinct_nontrivial", json!(distinct.len()));
    run.cov("rule", json!("one crash state per (scenario, number of completed mutating system calls of the snapshot); distinct = distinct directory contents (file names + bytes) among them"));
    run.cov("exhaustive", json!(true));
    run.assume("a killed process loses user-space buffers only: crash states = prefixes of the system-call sequence; each system call atomic; power-loss reordering out of scope");
    run.assume("system calls are observed by interposing write/pwrite64/rename/unlink/open(O_CREAT|O_TRUNC)/mkdir/ftruncate in the harness binary (self-tested at the start of every run)");
}
