//! C10 — no client input can crash a handler or wedge the node.
//! SEQ: every command word x argument lists over a boundary-token alphabet (exhaustive for <= 2
//! arguments, deviation-bounded around well-formed templates for 3-6 tokens), as unauthenticated,
//! token and admin session, alone and after one state-changing line; oracle = no panic, no
//! poisoned lock, service loops alive, a second client is still served correctly.
use super::lines::*;
use crate::loops::Loops;
use crate::report::Run;
use crate::seq::*;
use crate::world::*;
use nundb::bo::*;

fn tokens() -> Vec<String> {
    let long: String = std::iter::repeat('L').take(5000).collect();
    vec![
        "".into(),
        " ".into(),
        "x".into(),
        "-1".into(),
        "0".into(),
        "2147483647".into(),
        "2147483648".into(),
        "18446744073709551616".into(),
        "340282366920938463463374607431768211456".into(),
        "$$k".into(),
        "a;b".into(),
        long,
        "é".into(),
        // long non-ASCII tokens: any byte-offset cut-off (log truncation, buffer limits) lands
        // inside a multi-byte character for one of these alignments
        std::iter::repeat('é').take(3000).collect::<String>(),
        format!("x{}", std::iter::repeat('é').take(3000).collect::<String>()),
        std::iter::repeat('€').take(2000).collect::<String>(),
    ]
}

/// the largest values that still parse as u64 / i64 (a time or an operation id far in the future): tried as
/// the single deviation of every template position and as the only argument of every command word
fn far_future_tokens() -> Vec<String> {
    vec!["18446744073709551615".into(), "9223372036854775807".into()]
}

const TEMPLATES: &[&str] = &[
    "auth u p",
    "use-db t tok",
    "use-db t bob bt",
    "use ar tok3",
    "get k",
    "get-safe k",
    "set k v",
    "set-safe k 1 v",
    "remove k",
    "increment k 1",
    "watch k",
    "unwatch k",
    "unwatch-all",
    "keys k*",
    "ls *k",
    "arbiter",
    "resolve 5 t k 3 v",
    "resolve 5 ar c 3 v",
    "create-db n tok arbiter",
    "create-user bob bt",
    "set-permissions bob rw k*|i *",
    "snapshot false t",
    "snapshot true t|ar",
    "replicate t k 1 v",
    "replicate-remove t k",
    "replicate-increment t k 1",
    "replicate-snapshot t false",
    "replicate-since x:1 0",
    "replicate-join x:1",
    "replicate-leave x:1",
    "join x:1",
    "leave x:1",
    "set-primary x:1",
    "set-secoundary x:1",
    "election candidate 5 x:1",
    "election win",
    "election alive x:1",
    "ack 5 x:1",
    "rp 5 set k v",
    "rp 5 election candidate 5 x:1",
    "rp 5 rp 6 get k",
    "cluster-state",
    "metrics-state",
    "list-commands",
    "debug pending-ops",
    "debug pendding-conflitcts",
    "debug list-dbs",
    "debug force-election",
    "debug process-info",
];

/// core alphabet (second-step letters of the quick tier): templates with at most one deviation
/// and every command word with at most one argument
pub fn core_alphabet() -> Vec<String> {
    let mut t = tokens();
    t.extend(far_future_tokens());
    let mut raw: Vec<String> = vec![];
    let mut words = command_words();
    words.push("frobnicate".into());
    for w in words.iter() {
        raw.push(w.clone());
        for a in t.iter() {
            raw.push(format!("{} {}", w, a));
        }
    }
    for tpl in TEMPLATES {
        raw.push(tpl.to_string());
        let toks: Vec<&str> = tpl.split(' ').collect();
        for i in 1..toks.len() {
            for a in t.iter() {
                let mut x: Vec<String> = toks.iter().map(|s| s.to_string()).collect();
                x[i] = a.clone();
                raw.push(x.join(" "));
            }
        }
    }
    dedup_by_parse(raw)
}

pub fn alphabet(quick: bool) -> Vec<String> {
    let t = tokens();
    let mut raw: Vec<String> = vec![];
    let mut words = command_words();
    words.push("frobnicate".into());
    words.push("SET".into());
    // exhaustive: 0, 1 and 2 arguments
    for w in words.iter() {
        raw.push(w.clone());
        for a in t.iter() {
            raw.push(format!("{} {}", w, a));
            for b in t.iter() {
                raw.push(format!("{} {} {}", w, a, b));
            }
        }
    }
    // deviation-bounded around well-formed templates
    for tpl in TEMPLATES {
        raw.push(tpl.to_string());
        let toks: Vec<&str> = tpl.split(' ').collect();
        for i in 1..toks.len() {
            for a in t.iter() {
                let mut x: Vec<String> = toks.iter().map(|s| s.to_string()).collect();
                x[i] = a.clone();
                raw.push(x.join(" "));
                if quick && toks.len() > 4 {
                    continue;
                }
                for j in (i + 1)..toks.len() {
                    for b in t.iter() {
                        let mut y = x.clone();
                        y[j] = b.clone();
                        raw.push(y.join(" "));
                    }
                }
            }
        }
        // one token dropped / one appended
        for i in 1..toks.len() {
            let mut x: Vec<&str> = toks.clone();
            x.remove(i);
            raw.push(x.join(" "));
        }
        raw.push(format!("{} extra", tpl));
        raw.push(format!("{};", tpl));
        raw.push(format!("{}\n", tpl));
        // cut short after any token, with and without the blank that would introduce the next one
        for i in 1..toks.len() {
            raw.push(toks[..i].join(" "));
            raw.push(format!("{} ", toks[..i].join(" ")));
        }
    }
    for a in far_future_tokens() {
        for w in words.iter() {
            raw.push(format!("{} {}", w, a));
        }
        for tpl in TEMPLATES {
            let toks: Vec<&str> = tpl.split(' ').collect();
            for i in 1..toks.len() {
                let mut x: Vec<String> = toks.iter().map(|s| s.to_string()).collect();
                x[i] = a.clone();
                raw.push(x.join(" "));
            }
        }
    }
    raw.push("".into());
    raw.push(" ".into());
    raw.push(";".into());
    raw.push("\n".into());
    dedup_by_parse(raw)
}

#[derive(Clone, Copy, Debug, PartialEq)]
pub enum Kind {
    Unauth,
    Token,
    Admin,
}

pub struct W {
    pub steps: usize,
    pub node: Node,
    pub loops: Loops,
    pub sess: Session,
    pub probe: Session,
    pub probe_n: usize,
    /// the link channel of the secondary `x:1` the node knows from the start
    pub _member_rx: futures::channel::mpsc::Receiver<String>,
}

pub struct C10 {
    pub kind: Kind,
    pub letters: Vec<String>,
    pub depth1_only: bool,
    /// letters allowed after the first step (None = all)
    pub second_step: Option<Vec<bool>>,
}

fn v(clause: &str, detail: String) -> Vec<StepViolation> {
    vec![StepViolation { clause: clause.to_string(), detail, shape: None, soft: false }]
}

/// canonical shape of a crash: command word + failing source location (the call site)
fn vs(clause: &str, line: &str, site: &str, detail: String) -> Vec<StepViolation> {
    let word = line.trim().split(' ').next().unwrap_or("").to_string();
    let word = if word == "rp" { format!("rp {}", line.trim().split(' ').nth(2).unwrap_or("")) } else { word };
    let site = site.replace("/repo/", "");
    vec![StepViolation { clause: clause.to_string(), detail, shape: Some(format!("{} @ {}", word, site)), soft: false }]
}

pub fn poisoned(node: &Node) -> Option<String> {
    let d = &node.dbs;
    if d.map.is_poisoned() {
        return Some("Databases.map".into());
    }
    if d.pending_opps.is_poisoned() || d.keys_map.is_poisoned() || d.id_keys_map.is_poisoned() || d.id_name_db_map.is_poisoned() {
        return Some("Databases id/pending maps".into());
    }
    if d.to_snapshot.is_poisoned() {
        return Some("Databases.to_snapshot".into());
    }
    if d.cluster_state.is_poisoned() {
        return Some("Databases.cluster_state".into());
    }
    if let Ok(cs) = d.cluster_state.lock() {
        if cs.members.is_poisoned() {
            return Some("cluster_state.members".into());
        }
    }
    if d.query_ema.is_poisoned() || d.replication_ema.is_poisoned() {
        return Some("ema".into());
    }
    let m = d.map.read().unwrap();
    for (n, db) in m.iter() {
        if db.map.is_poisoned() {
            return Some(format!("db {} map", n));
        }
        if db.watchers.map.is_poisoned() {
            return Some(format!("db {} watchers", n));
        }
        if db.connections.is_poisoned() {
            return Some(format!("db {} connections", n));
        }
    }
    None
}

pub fn make_world(kind: Kind) -> W {
    let mut node = Node::new_single("c10");
    let mut loops = Loops::new(&node);
    let mut admin = Session::new();
    admin.exec(&node, &format!("auth {} {}", USER, PWD));
    admin.exec(&node, "create-db t tok none");
    admin.exec(&node, "create-db ar tok3 arbiter");
    admin.exec(&node, "use-db t tok");
    admin.exec(&node, "set k 1");
    admin.exec(&node, "set n abc");
    admin.exec(&node, "create-user bob bt");
    let mut sess = Session::new();
    match kind {
        Kind::Unauth => {}
        Kind::Token => {
            sess.exec(&node, "use-db t tok");
        }
        Kind::Admin => {
            sess.exec(&node, &format!("auth {} {}", USER, PWD));
            sess.exec(&node, "use-db t tok");
        }
    }
    let mut probe = Session::new();
    probe.exec(&node, "use-db t tok");
    loops.run_all(&mut node, 20);
    // the node is the primary of a cluster: the secondary x:1 (the name the cluster commands of the alphabet use)
    // is a member from the start, and one operation sent to it is still unacknowledged - cluster commands have
    // a known member and a pending operation to act upon without a preceding `join`
    let (tx, rx) = futures::channel::mpsc::channel::<String>(1000);
    node.dbs.add_cluster_member(ClusterMember { name: "x:1".to_string(), role: ClusterRole::Secoundary, sender: Some(tx) });
    node.dbs.register_pending_opp(5, "replicate t k -1 1".to_string(), &"x:1".to_string());
    W { steps: 0, node, loops, sess, probe, probe_n: 0, _member_rx: rx }
}

/// value / key classes: the crash oracle can only depend on these, not on the exact strings
fn class_of_value(v: &str) -> String {
    if v.is_empty() {
        "empty".into()
    } else if let Ok(n) = v.parse::<i64>() {
        if n.abs() >= (i32::MAX as i64) - 2 { "num-edge".into() } else { "num".into() }
    } else if v.len() > 1000 {
        "long".into()
    } else if !v.is_ascii() {
        "utf8".into()
    } else {
        "text".into()
    }
}

fn class_of_key(k: &str) -> String {
    let base = if k.starts_with("$$") {
        "secure"
    } else if k.starts_with('$') {
        "system"
    } else if k.is_empty() {
        "emptykey"
    } else if k.len() > 1000 {
        "longkey"
    } else {
        "plain"
    };
    // the keys the templates address by name keep their identity
    if ["k", "n", "c", "$$token", "$connections", "probe"].contains(&k) || k.starts_with("$$user_") || k.starts_with("$$permission_") {
        k.to_string()
    } else {
        base.to_string()
    }
}

pub fn state_key(w: &W) -> String {
    let all_full = dump_all(&w.node.dbs);
    // coarse canonical form: per database the multiset of (key class, value class, version class, state)
    let all: std::collections::BTreeMap<String, std::collections::BTreeSet<(String, String, String, u8)>> = all_full
        .iter()
        .map(|(db, d)| {
            let dbn = if ["$admin", "t", "ar"].contains(&db.as_str()) { db.clone() } else { format!("other:{}", class_of_key(db)) };
            (
                dbn,
                d.iter()
                    .map(|(k, v)| {
                        let ver = if v.version >= i32::MAX - 2 { "edge" } else if v.version < 0 { "neg" } else { "ok" };
                        (class_of_key(k), class_of_value(&v.value), ver.to_string(), v.state)
                    })
                    .collect(),
            )
        })
        .collect();
    let members: Vec<String> = {
        match w.node.dbs.cluster_state.lock() {
            Ok(cs) => match cs.members.lock() {
                Ok(m) => {
                    let mut v: Vec<String> = m.iter().map(|(k, v)| format!("{}:{}", k, v.role)).collect();
                    v.sort();
                    v
                }
                Err(_) => vec!["poisoned".into()],
            },
            Err(_) => vec!["poisoned".into()],
        }
    };
    let snapq = w.node.dbs.to_snapshot.read().map(|g| g.clone()).unwrap_or_default();
    let pending = w.node.dbs.pending_opps.read().map(|p| p.len()).unwrap_or(0);
    let watchers: Vec<_> = all_full.keys().map(|n| with_db(&w.node.dbs, n, |db| watcher_counts(db).into_iter().map(|(k, c)| (class_of_key(&k), c)).collect::<std::collections::BTreeSet<_>>())).collect();
    let cm = w.sess.client.cluster_member.lock().map(|m| m.as_ref().map(|x| format!("{}:{}", x.name, x.role))).unwrap_or(None);
    format!(
        "{:?}|{:?}|{:?}|{}|{}|{:?}|{:?}|{:?}|{}|{:?}|{}",
        all,
        members,
        snapq,
        pending,
        w.node.dbs.get_role(),
        watchers,
        w.sess.client.selected_db_name(),
        w.sess.client.selected_db_user_name(),
        w.sess.client.is_admin_auth(),
        cm,
        w.probe_n
    )
}

/// the oracle shared with the transport stage
pub fn check_after_line(w: &mut W, line: &str, o: &Obs) -> Vec<StepViolation> {
    let short = |s: &str| if s.len() > 120 { format!("{}…({} bytes)", &s[..s.char_indices().nth(100).map(|x| x.0).unwrap_or(100)], s.len()) } else { s.to_string() };
    if let Some(p) = &o.panic {
        let loc = take_panic_loc().unwrap_or_default();
        let pois = poisoned(&w.node);
        return vs(
            if pois.is_some() { "handler-panic-poisons-lock" } else { "handler-panic" },
            line,
            &loc,
            format!("`{}` panicked: {} at {}{}", short(line), short(p), loc, pois.map(|l| format!("; poisoned: {}", l)).unwrap_or_default()),
        );
    }
    if let Some(l) = poisoned(&w.node) {
        return v("lock-poisoned", format!("after `{}`: {}", short(line), l));
    }
    w.loops.run_all(&mut w.node, 50);
    if let Some(d) = w.loops.dead() {
        let site = d.rsplit(" at ").next().unwrap_or("").trim_matches(|c| c == '"' || c == ')' || c == '(').replace("Some(\"", "").to_string();
        return vs("service-loop-died", line, &site, format!("after `{}`: {}", short(line), d));
    }
    if let Some(l) = poisoned(&w.node) {
        return v("lock-poisoned", format!("after `{}` (service loops ran): {}", short(line), l));
    }
    // a second client is still served, correctly
    w.probe_n += 1;
    let val = format!("p{}", w.probe_n);
    let o1 = w.probe.exec(&w.node, &format!("set probe {}", val));
    let o2 = w.probe.exec(&w.node, "get probe");
    // removing the never-persisted probe key restores the previous state exactly
    let o3 = w.probe.exec(&w.node, "remove probe");
    w.loops.run_all(&mut w.node, 50);
    if o3.panic.is_some() || o3.resp != "Ok" {
        return v("later-client-fails", format!("after `{}`: probe remove -> {:?}", short(line), o3));
    }
    if o1.panic.is_some() || o2.panic.is_some() {
        return v("later-client-fails", format!("after `{}`: probe set/get panicked: {:?} {:?}", short(line), o1.panic, o2.panic));
    }
    if o1.resp != "Ok" || o2.msgs != vec![format!("value {}\n", val)] {
        return v("later-client-fails", format!("after `{}`: probe set -> {:?}, get -> {:?}", short(line), o1, o2));
    }
    if let Some(d) = w.loops.dead() {
        return v("service-loop-died", format!("after `{}` + probe: {}", short(line), d));
    }
    vec![]
}

impl SeqModel for C10 {
    type World = W;
    fn letters(&self) -> Vec<String> {
        self.letters.iter().map(|l| if l.len() > 200 { format!("{}…({} bytes)", &l[..l.char_indices().nth(120).map(|x| x.0).unwrap_or(120)], l.len()) } else { l.clone() }).collect()
    }
    fn new_world(&self) -> W {
        make_world(self.kind)
    }
    fn drop_world(&self, w: W) {
        w.node.remove_dir()
    }
    fn key(&self, w: &W) -> String {
        state_key(w)
    }
    fn is_leaf(&self, _letter: usize, depth: usize) -> bool {
        self.depth1_only || depth >= 1
    }
    fn enabled(&self, w: &W, letter: usize) -> bool {
        match &self.second_step {
            Some(core) if w.steps >= 1 => core[letter],
            _ => true,
        }
    }
    fn step(&self, w: &mut W, letter: usize) -> Vec<StepViolation> {
        w.node.ctx.install();
        let line = self.letters[letter].clone();
        let pn = w.probe_n;
        // the engine keeps using a world whose state a letter did not change: the step counter
        // (which `enabled` reads) must then not have moved either, or every letter after the
        // first harmless one would be judged "second step" at the root
        let at_root = if w.steps == 0 { Some(state_key(w)) } else { None };
        w.steps += 1;
        let o = w.sess.exec(&w.node, &line);
        let r = check_after_line(w, &line, &o);
        // the probe counter is bookkeeping, not state: keep keys comparable
        w.probe_n = pn;
        if let Some(k0) = at_root {
            if r.is_empty() && state_key(w) == k0 {
                w.steps = 0;
            }
        }
        if r.is_empty() {
            // restore the probe key so that a read-only line leaves the key unchanged
        }
        r
    }
}

pub fn run(run: &mut Run) {
    let quick = run.quick();
    let letters = alphabet(quick);
    run.cov("alphabet_lines_after_parser_dedup", serde_json::json!(letters.len()));
    for kind in [Kind::Unauth, Kind::Token, Kind::Admin] {
        let second_step = if quick {
            let core = core_alphabet();
            let keys: std::collections::BTreeSet<String> = core.iter().map(|l| super::lines::parse_key(l)).collect();
            Some(letters.iter().map(|l| keys.contains(&super::lines::parse_key(l))).collect::<Vec<bool>>())
        } else {
            None
        };
        if let Some(c) = &second_step {
            run.cov("second_step_alphabet", serde_json::json!(c.iter().filter(|b| **b).count()));
        }
        let m = C10 { kind, letters: letters.clone(), depth1_only: false, second_step };
        let cfg = SeqConfig {
            max_depth: 2,
            workers: crate::util::workers(),
            max_states: 3_000_000,
            budget: std::time::Duration::from_secs(if quick { 25 } else { 900 }),
        };
        let res = explore(&m, &cfg);
        let before = run.violations.len();
        super::seq_report(run, &m, &res, &cfg);
        for v in run.violations[before..].iter_mut() {
            v.shape = format!("[{:?}] {}", kind, v.shape);
        }
        run.cov(&format!("session_{:?}", kind), serde_json::json!({"states": res.states, "transitions": res.transitions, "depth_completed": res.depth_completed, "exhausted": res.exhausted_bound, "cap": res.cap_hit}));
    }
    run.assume("state merging uses value/key classes (empty, numeric, numeric at the i32 edge, text, non-ASCII, long; named template keys keep their identity), which is what a crash can depend on; exact strings are not part of the key");
    transports(run, quick);
    run.assume("overflow verdicts are for builds with overflow checks (the test profile); the 'seeded random byte strings' tail of the quantifier is sampling and is not used");
    run.assume("link threads created by `join` are parked by the harness (hook H7), so membership is deterministic");
    run.assume("transport stage: the core alphabet plus raw non-UTF-8 lines over the real TCP server (one connection per line) and the real HTTP server; a second connection must be served and the process-wide panic hook must stay silent; WebSocket frames are not driven");
}


/// the same lines through the real TCP and HTTP servers
fn transports(run: &mut Run, quick: bool) {
    let node = Node::new_single("c10-net");
    let mut admin = Session::new();
    admin.exec(&node, &format!("auth {} {}", USER, PWD));
    admin.exec(&node, "create-db t tok none");
    admin.exec(&node, "use-db t tok");
    admin.exec(&node, "set k 1");
    let _ = admin.disconnect(&node);
    crate::world::set_fallback_ctx(Some(node.ctx.clone()));
    let tcp = crate::tcp::TcpServer::start(node.dbs.clone());
    let http = crate::http::HttpServer::start(node.dbs.clone());
    let ws = crate::ws::WsServer::start(node.dbs.clone());
    let mut ws_probe = ws.connect().ok();
    if let Some(p) = ws_probe.as_mut() {
        p.cmd("use-db t tok");
    }
    let mut lines: Vec<Vec<u8>> = core_alphabet().into_iter().filter(|l| !l.starts_with("join") && !l.starts_with("debug force-election") && !l.contains("election")).map(|l| l.into_bytes()).collect();
    if quick {
        lines = lines.into_iter().step_by(10).collect();
    }
    lines.push(vec![0xff, 0xfe, b' ', b'k']);
    lines.push(b"set k \xff\xfe".to_vec());
    lines.push(vec![b'g', b'e', b't', b' ', 0xc3]);
    let panics_before = crate::world::PANIC_COUNT.load(std::sync::atomic::Ordering::SeqCst);
    let mut n = 0u64;
    let mut probe_n = 0;
    let mut probe = tcp.connect();
    probe.cmd("use-db t tok");
    // requests that are not well-formed HTTP at all
    let odd: Vec<Vec<u8>> = vec![
        b"GET / HTTP/1.1\r\nHost: x\r\n\r\n".to_vec(),
        b"POST / HTTP/1.1\r\nHost: x\r\n\r\n".to_vec(),
        b"POST / HTTP/1.1\r\nHost: x\r\nContent-Length: 100\r\n\r\nget k".to_vec(),
        b"POST / HTTP/1.1\r\nHost: x\r\nContent-Length: abc\r\n\r\nget k".to_vec(),
        b"POST / HTTP/1.1\r\nHost: x\r\nTransfer-Encoding: chunked\r\n\r\nzz\r\nget k\r\n0\r\n\r\n".to_vec(),
        b"\xff\xfe\r\n\r\n".to_vec(),
        b"POST / HTTP/9.9\r\n\r\n".to_vec(),
        format!("POST / HTTP/1.1\r\nHost: x\r\nContent-Length: {}\r\n\r\n{}", 300_000, ";".repeat(300_000)).into_bytes(),
        format!("POST / HTTP/1.1\r\nHost: x\r\nX-Long: {}\r\nContent-Length: 5\r\n\r\nget k", "h".repeat(100_000)).into_bytes(),
    ];
    for (i, rq) in odd.iter().enumerate() {
        n += 1;
        let _ = http.raw(rq);
        let got = http.post(&format!("use-db t tok;set hprobe o{};get hprobe;remove hprobe", i)).unwrap_or_else(|e| format!("<no answer: {}>", e));
        let panics = crate::world::PANIC_COUNT.load(std::sync::atomic::Ordering::SeqCst);
        if !got.contains(&format!("value o{}", i)) || panics != panics_before {
            let log = crate::world::PANIC_LOG.lock().unwrap().last().cloned().unwrap_or_default();
            run.violate(crate::report::Violation { clause: if panics != panics_before { "handler-panic".into() } else { "later-client-fails".into() }, shape: format!("[http malformed request #{}]", i), detail: format!("after the request {:?} a later HTTP request was answered {:?}; panic {:?}", String::from_utf8_lossy(&rq[..rq.len().min(120)]), got, log), replay: serde_json::json!({"engine":"transport","transport":"http","malformed":i}) });
        }
    }
    for kind in [Kind::Unauth, Kind::Admin] {
        for line in lines.iter() {
            n += 1;
            // TCP: one connection per line
            {
                use std::io::Write;
                let mut c = tcp.connect();
                if kind == Kind::Admin {
                    c.cmd(&format!("auth {} {}", USER, PWD));
                    c.cmd("use-db t tok");
                }
                let mut raw = line.clone();
                raw.push(b'\n');
                let _ = c.raw().write_all(&raw);
                let _ = c.read_line_timeout(40);
                let _ = c.close_and_wait();
            }
            // HTTP: the line as a body (bytes that are not UTF-8 included)
            match String::from_utf8(line.clone()) {
                Ok(text) => {
                    let body = if kind == Kind::Admin { format!("auth {} {};use-db t tok;{}", USER, PWD, text) } else { text };
                    let _ = http.post(&body);
                }
                Err(_) => {
                    let _ = http.post_bytes(line);
                }
            }
            // the HTTP front end has 4 worker threads: it must still answer, correctly
            if n % 10 == 0 {
                let got = http.post(&format!("use-db t tok;set hprobe h{};get hprobe;remove hprobe", n)).unwrap_or_else(|e| format!("<no answer: {}>", e));
                if !got.contains(&format!("value h{}", n)) {
                    let shown = String::from_utf8_lossy(line).chars().take(80).collect::<String>();
                    run.violate(crate::report::Violation { clause: "later-client-fails".into(), shape: format!("[http {:?}] {}", kind, shown.split(' ').next().unwrap_or("")), detail: format!("after `{}` over HTTP a later HTTP request was answered {:?}", shown, got), replay: serde_json::json!({"engine":"transport","transport":"http","line":shown}) });
                    break;
                }
            }
            // WebSocket: one connection per line; a text frame when the line is UTF-8, a binary frame otherwise
            let shown = String::from_utf8_lossy(line).chars().take(80).collect::<String>();
            match ws.connect() {
                Ok(mut c) => {
                    if kind == Kind::Admin {
                        c.cmd(&format!("auth {} {};use-db t tok", USER, PWD));
                    }
                    if std::str::from_utf8(line).is_ok() && n % 2 == 0 {
                        c.send_text(line);
                    } else {
                        c.send_binary(line);
                    }
                    let _ = c.read_replies(1, 40);
                    let _ = c.close_and_wait();
                }
                Err(e) => {
                    run.violate(crate::report::Violation { clause: "later-client-fails".into(), shape: format!("[websocket {:?}] connect", kind), detail: format!("before `{}`: a WebSocket client cannot connect any more: {}", shown, e), replay: serde_json::json!({"engine":"transport","line":shown}) });
                    break;
                }
            }
            let ws_ok = match ws_probe.as_mut() {
                Some(p) => {
                    let got = p.cmd(&format!("set wsprobe w{};get wsprobe;remove wsprobe", n));
                    got.iter().any(|l| l.trim() == format!("value w{}", n))
                }
                None => false,
            };
            if ws.service_dead() || !ws_ok {
                let log = crate::world::PANIC_LOG.lock().unwrap().last().cloned().unwrap_or_default();
                run.violate(crate::report::Violation { clause: "service-loop-died".into(), shape: format!("[websocket {:?}] {} @ {}", kind, if std::str::from_utf8(line).is_ok() { shown.split(' ').next().unwrap_or("").to_string() } else { "<non-UTF-8 bytes>".to_string() }, log.rsplit(" @ ").next().unwrap_or("").replace("/repo/", "")), detail: format!("after `{}` in a WebSocket frame the WebSocket service no longer serves its other client (event loop ended: {}): {}", shown, ws.service_dead(), log), replay: serde_json::json!({"engine":"transport","transport":"websocket","line":shown}) });
                break;
            }
            // a second client is served, correctly
            probe_n += 1;
            let got = if probe_n % 25 == 1 {
                // a brand-new connection every now and then, the long-lived one otherwise
                let mut p = tcp.connect();
                p.cmd("use-db t tok");
                p.cmd(&format!("set probe p{}", probe_n));
                let got = p.cmd("get probe");
                p.cmd("remove probe");
                let _ = p.close_and_wait();
                got
            } else {
                probe.cmd(&format!("set probe p{}", probe_n));
                let got = probe.cmd("get probe");
                probe.cmd("remove probe");
                got
            };
            if !got.iter().any(|l| l.trim() == format!("value p{}", probe_n)) {
                run.violate(crate::report::Violation { clause: "later-client-fails".into(), shape: format!("[transport {:?}] {}", kind, shown.split(' ').next().unwrap_or("")), detail: format!("after `{}` over TCP/HTTP a second TCP client got {:?}", shown, got), replay: serde_json::json!({"engine":"transport","line":shown}) });
                break;
            }
            let panics = crate::world::PANIC_COUNT.load(std::sync::atomic::Ordering::SeqCst);
            if panics != panics_before {
                let log = crate::world::PANIC_LOG.lock().unwrap().last().cloned().unwrap_or_default();
                run.violate(crate::report::Violation { clause: "handler-panic".into(), shape: format!("[transport {:?}] {} @ {}", kind, shown.split(' ').next().unwrap_or(""), log.rsplit(" @ ").next().unwrap_or("").replace("/repo/", "")), detail: format!("`{}` over TCP/HTTP: a server thread panicked: {}", shown, log), replay: serde_json::json!({"engine":"transport","line":shown}) });
                break;
            }
        }
    }
    run.cov("transport_lines", serde_json::json!(n));
    run.cov_add("transitions", n);
    crate::world::set_fallback_ctx(None);
    node.remove_dir();
}
