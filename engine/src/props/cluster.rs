//! Shared set-up for the cluster (NET) drivers: a settled n-node cluster with a database, ready
//! client sessions on chosen nodes, and scripted operations to explore.
use crate::net::*;
use crate::report::{Run, Violation};
use crate::world::*;
use serde_json::json;
use std::collections::BTreeMap;

#[derive(Clone, Debug)]
pub struct Script {
    /// (node index, command) in issue order per node; commands of different nodes interleave freely
    pub ops: Vec<(usize, String)>,
}

impl Script {
    pub fn name(&self) -> String {
        self.ops.iter().map(|(n, c)| format!("n{}:`{}`", n + 1, c)).collect::<Vec<_>>().join(" ; ")
    }
}

pub struct ClusterSetup {
    pub nodes: usize,
    pub strategy: &'static str,
    /// admin commands on the primary (db t selected) before the exploration starts
    pub init: Vec<String>,
}

/// settled cluster + database t + one ready (authenticated, db selected) session per script node
pub fn build(setup: &ClusterSetup, script: &Script) -> Result<NetWorld, String> {
    let mut w = settled_cluster(setup.nodes)?;
    let mut lines: Vec<String> = vec![format!("auth {} {}", USER, PWD), format!("create-db t tok {}", setup.strategy), "use-db t tok".into()];
    lines.extend(setup.init.iter().cloned());
    let refs: Vec<&str> = lines.iter().map(|s| s.as_str()).collect();
    w.add_client(0, &refs, false);
    w.run_to_quiescence(20000)?;
    w.clients.clear();
    // one session per node that issues commands
    let mut per_node: BTreeMap<usize, Vec<String>> = BTreeMap::new();
    for (n, c) in script.ops.iter() {
        per_node.entry(*n).or_default().push(c.clone());
    }
    for (n, _) in per_node.iter() {
        w.add_client(*n, &[&format!("auth {} {}", USER, PWD), "use-db t tok"], false);
    }
    w.run_to_quiescence(20000)?;
    for (ci, (_n, cmds)) in per_node.iter().enumerate() {
        w.clients[ci].script = cmds.iter().cloned().collect();
        w.clients[ci].done = false;
        w.clients[ci].replies.clear();
    }
    w.traffic.clear();
    w.problems.clear();
    w.steps = 0;
    Ok(w)
}

/// per node: database -> key -> (value, version, removed)
pub fn data_view(w: &NetWorld, i: usize) -> BTreeMap<String, BTreeMap<String, (String, i32)>> {
    dump_all(&w.nodes[i].node.dbs)
        .into_iter()
        .map(|(d, m)| {
            (
                d,
                m.into_iter()
                    // tombstones are "removed"; $connections is node-local session accounting
                    .filter(|(k, v)| v.state != nundb::bo::ValueStatus::Deleted as u8 && k != "$connections")
                    .map(|(k, v)| (k, (v.value, v.version)))
                    .collect(),
            )
        })
        .collect()
}

pub fn report_findings(run: &mut Run, prop: &str, script_name: &str, findings: Vec<NetFinding>, shape_of: &dyn Fn(&NetFinding) -> String) {
    let mut seen = std::collections::BTreeSet::new();
    for f in findings {
        let shape = shape_of(&f);
        if !seen.insert((f.clause.clone(), shape.clone())) {
            continue;
        }
        run.violate(Violation {
            clause: f.clause.clone(),
            shape,
            detail: format!("script {} ; {} ; delivery order {:?}", script_name, f.detail, path_str(&f.path)),
            replay: json!({"engine":"net","property":prop,"script":script_name,"path":path_str(&f.path)}),
        });
    }
}
