//! Shared set-up for the cluster (NET) drivers: a settled n-node cluster with a database, ready
//! client sessions on chosen nodes, and scripted operations to explore.
use crate::net::*;
use crate::report::{Run, Violation};
use crate::world::*;
use serde_json::json;
use std::collections::BTreeMap;

#[derive(Clone, Debug)]
pub struct Script {
    /// (node index, command) in issue order per node; commands of different nodes interleave freely
    pub ops: Vec<(usize, String)>,
}

impl Script {
    pub fn name(&self) -> String {
        self.ops.iter().map(|(n, c)| format!("n{}:`{}`", n + 1, c)).collect::<Vec<_>>().join(" ; ")
    }
}

pub struct ClusterSetup {
    pub nodes: usize,
    pub strategy: &'static str,
    /// admin commands on the primary (db t selected) before the exploration starts
    pub init: Vec<String>,
}

/// settled cluster + database t + one ready (authenticated, db selected) session per script node
pub fn build(setup: &ClusterSetup, script: &Script) -> Result<NetWorld, String> {
    build_from(settled_cluster(setup.nodes)?, setup, script)
}

/// as `build`, on a cluster whose nodes were started one after the other with the given process
/// ids (start times as the nodes' own clocks saw them): with a last node that claims to be the
/// oldest the primary has moved once, and the node that was primary before is still a member
pub fn build_pids(setup: &ClusterSetup, script: &Script, pids: &[u128]) -> Result<NetWorld, String> {
    build_from(crate::props::c07::settled_with_pids(setup.nodes, pids)?, setup, script)
}

/// as `build`, on a three-node cluster that has been through a fail-over: the primary died, the
/// survivors elected the older of them (a primary that announced itself over links opened while it
/// was a secondary); script positions name nodes of the original cluster (n1 is dead)
pub fn build_after_failover(setup: &ClusterSetup, script: &Script) -> Result<NetWorld, String> {
    let mut w = crate::props::c07::settled_with_pids(3, &[100, 200, 300])?;
    let p = (0..3).find(|i| w.role(*i) == nundb::bo::ClusterRole::Primary).ok_or("no primary after bootstrap")?;
    // the database and its initial data exist on every node before the primary dies
    let mut lines: Vec<String> = vec![format!("auth {} {}", USER, PWD), format!("create-db t tok {}", setup.strategy), "use-db t tok".into()];
    lines.extend(setup.init.iter().cloned());
    let refs: Vec<&str> = lines.iter().map(|s| s.as_str()).collect();
    w.add_client(p, &refs, false);
    w.run_to_quiescence(20000)?;
    w.clients.clear();
    w.kill_node_noticed(p, false)?;
    w.run_to_quiescence(20000)?;
    w.clients.retain(|c| !c.done);
    let mut per_node: BTreeMap<usize, Vec<String>> = BTreeMap::new();
    for (n, c) in script.ops.iter() {
        per_node.entry(*n).or_default().push(c.clone());
    }
    let first = w.clients.len();
    for (n, _) in per_node.iter() {
        w.add_client(*n, &[&format!("auth {} {}", USER, PWD), "use-db t tok"], false);
    }
    w.run_to_quiescence(20000)?;
    for (ci, (_n, cmds)) in per_node.iter().enumerate() {
        w.clients[first + ci].script = cmds.iter().cloned().collect();
        w.clients[first + ci].done = false;
        w.clients[first + ci].replies.clear();
    }
    w.traffic.clear();
    w.problems.clear();
    w.steps = 0;
    Ok(w)
}

fn build_from(mut w: NetWorld, setup: &ClusterSetup, script: &Script) -> Result<NetWorld, String> {
    // administrator commands go to whoever is primary
    let p = (0..w.nodes.len()).find(|i| w.nodes[*i].alive && w.role(*i) == nundb::bo::ClusterRole::Primary).ok_or("no primary after bootstrap")?;
    let mut lines: Vec<String> = vec![format!("auth {} {}", USER, PWD), format!("create-db t tok {}", setup.strategy), "use-db t tok".into()];
    lines.extend(setup.init.iter().cloned());
    let refs: Vec<&str> = lines.iter().map(|s| s.as_str()).collect();
    w.add_client(p, &refs, false);
    w.run_to_quiescence(20000)?;
    w.clients.clear();
    // one session per node that issues commands
    let mut per_node: BTreeMap<usize, Vec<String>> = BTreeMap::new();
    for (n, c) in script.ops.iter() {
        per_node.entry(*n).or_default().push(c.clone());
    }
    for (n, _) in per_node.iter() {
        w.add_client(*n, &[&format!("auth {} {}", USER, PWD), "use-db t tok"], false);
    }
    w.run_to_quiescence(20000)?;
    for (ci, (_n, cmds)) in per_node.iter().enumerate() {
        w.clients[ci].script = cmds.iter().cloned().collect();
        w.clients[ci].done = false;
        w.clients[ci].replies.clear();
    }
    w.traffic.clear();
    w.problems.clear();
    w.steps = 0;
    Ok(w)
}

/// per node: database -> key -> (value, version, removed)
pub fn data_view(w: &NetWorld, i: usize) -> BTreeMap<String, BTreeMap<String, (String, i32)>> {
    dump_all(&w.nodes[i].node.dbs)
        .into_iter()
        .map(|(d, m)| {
            (
                d,
                m.into_iter()
                    // tombstones are "removed"; $connections is node-local session accounting
                    .filter(|(k, v)| v.state != nundb::bo::ValueStatus::Deleted as u8 && k != "$connections")
                    .map(|(k, v)| (k, (v.value, v.version)))
                    .collect(),
            )
        })
        .collect()
}

pub fn report_findings(run: &mut Run, prop: &str, script_name: &str, findings: Vec<NetFinding>, shape_of: &dyn Fn(&NetFinding) -> String) {
    let mut seen = std::collections::BTreeSet::new();
    for f in findings {
        let shape = shape_of(&f);
        if !seen.insert((f.clause.clone(), shape.clone())) {
            continue;
        }
        run.violate(Violation {
            clause: f.clause.clone(),
            shape,
            detail: format!("script {} ; {} ; delivery order {:?}", script_name, f.detail, path_str(&f.path)),
            replay: json!({"engine":"net","property":prop,"script":script_name,"path":path_str(&f.path)}),
        });
    }
}

/// `./check replay <file>` for a counterexample of a cluster-script check (C04, C14): the cluster is
/// rebuilt, the recorded transitions are taken one by one, and every message on the links is printed.
pub fn replay_script(script_name: &str, path: &[String]) -> i32 {
    crate::net::init_sleep_sites();
    // "[3 nodes, none db] n1:`create-db d2 tok2` ; n2:`set k v`"
    let head = script_name.trim_start_matches('[');
    let nodes: usize = head.split(' ').next().and_then(|n| n.parse().ok()).unwrap_or(2);
    let strategy: &'static str = if head.contains("arbiter db]") { "arbiter" } else if head.contains("newer db]") { "newer" } else { "none" };
    let body = script_name.split("] ").nth(1).unwrap_or("");
    let mut ops = vec![];
    for part in body.split(" ; ") {
        if let Some((n, c)) = part.split_once(":`") {
            let node: usize = n.trim_start_matches('n').parse().unwrap_or(1);
            ops.push((node - 1, c.trim_end_matches('`').to_string()));
        }
    }
    let script = Script { ops };
    let setup = ClusterSetup { nodes, strategy, init: vec!["set k v0".into(), "set k v0b".into(), "set c 5".into()] };
    let mut w = match build(&setup, &script) {
        Ok(w) => w,
        Err(e) => {
            eprintln!("machinery: cannot build the cluster: {}", e);
            return 2;
        }
    };
    println!("script: {:?} on {} nodes, {} database", script.name(), nodes, strategy);
    for (i, want) in path.iter().enumerate() {
        let en = w.enabled(true);
        let t = match en.iter().find(|t| format!("{:?}", t) == *want) {
            Some(t) => t.clone(),
            None => {
                eprintln!("replay divergence at step {}: {} is not enabled; enabled {:?}", i, want, en);
                w.shutdown();
                return 2;
            }
        };
        if let Err(e) = w.apply(&t) {
            eprintln!("machinery: {}", e);
            return 2;
        }
        let from = w.traffic.len();
        let _ = from;
        println!("{:4} {}", i, want);
    }
    if path.is_empty() {
        // no recorded path: the default schedule (first enabled transition) to quiescence
        match w.run_to_quiescence(5000) {
            Ok(n) => println!("default schedule: quiet after {} steps", n),
            Err(e) => println!("default schedule: {}", e),
        }
    }
    println!("messages on the links, in order:");
    for (f, t, m) in w.traffic.iter() {
        println!("   n{} -> n{}  {}", f + 1, t + 1, m);
    }
    for i in 0..nodes {
        println!("n{}: role {} data {:?}", i + 1, w.role(i), data_view(&w, i));
    }
    println!("enabled afterwards: {:?}", w.enabled(true));
    w.shutdown();
    0
}
