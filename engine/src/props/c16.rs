//! C16 — after any restart the oplog is either discarded or still decodes correctly.
//! SEQ over create-db / first-write / rewrite / snapshot / shutdown / kill histories with the real
//! replication loop; within every step the CRASH engine yields the directory before each system
//! call, and every such state (and every final state) is restarted with the real start-up code.
use crate::crash;
use crate::loops::Loops;
use crate::report::Run;
use crate::seq::*;
use crate::world::*;
use nundb::bo::*;
use std::collections::{BTreeMap, BTreeSet};
use std::sync::Arc;

#[derive(Clone, Debug)]
enum L {
    CreateDb(usize),
    NewKey(usize),
    Rewrite(usize),
    Snapshot(usize),
    /// a space-reclaiming snapshot
    SnapshotReclaim(usize),
    ShutdownRestart,
    /// as ShutdownRestart, but the next start-up meets the directory entries in the opposite order
    ShutdownRestartReversed,
    KillRestart,
}

const DBS: [&str; 3] = ["d0", "d1", "d2"];

type Intent = (String, Option<String>, u8);

pub struct W {
    ctx: Arc<NodeCtx>,
    node: Node,
    loops: Loops,
    admin: Session,
    /// op id -> (database, key, kind) the record was written for
    intents: BTreeMap<u64, Intent>,
    created: BTreeSet<usize>,
    keys_written: usize,
    first_key: BTreeMap<usize, String>,
    /// databases whose snapshot completed at least once
    snapshotted: BTreeSet<String>,
    /// records written for a database incarnation that a restart has dropped (never snapshotted)
    orphaned: BTreeSet<u64>,
    steps: usize,
}

pub struct C16 {
    letters: Vec<L>,
    crash_states: std::sync::atomic::AtomicU64,
    crash_distinct: std::sync::Mutex<BTreeSet<String>>,
}

fn v(clause: &str, detail: String) -> Vec<StepViolation> {
    vec![StepViolation { clause: clause.to_string(), detail, shape: None, soft: false }]
}

pub fn parse_oplog(dir: &std::path::Path) -> Vec<(u64, u64, u64, u8)> {
    let mut files = vec![dir.join("oplog-nun.op")];
    if let Ok(rd) = std::fs::read_dir(dir.join("oplog")) {
        for e in rd.flatten() {
            files.push(e.path());
        }
    }
    let mut out = vec![];
    for f in files {
        if let Ok(b) = std::fs::read(&f) {
            for rec in b.chunks_exact(25) {
                let t = u64::from_le_bytes(rec[0..8].try_into().unwrap());
                let k = u64::from_le_bytes(rec[8..16].try_into().unwrap());
                let d = u64::from_le_bytes(rec[16..24].try_into().unwrap());
                out.push((t, k, d, rec[24]));
            }
        }
    }
    out
}

fn unique_ids(dbs: &Arc<Databases>) -> Result<(), String> {
    let m = dbs.map.read().unwrap();
    let mut seen: BTreeMap<usize, String> = BTreeMap::new();
    for (name, db) in m.iter() {
        if let Some(other) = seen.insert(db.metadata.id, name.clone()) {
            return Err(format!("databases {} and {} share id {}", other, name, db.metadata.id));
        }
    }
    let km = dbs.keys_map.read().unwrap();
    let mut seen: BTreeMap<u64, String> = BTreeMap::new();
    for (k, id) in km.iter() {
        if let Some(other) = seen.insert(*id, k.clone()) {
            return Err(format!("keys {} and {} share id {}", other, k, id));
        }
    }
    Ok(())
}

/// restart on a copy of `dir`; the oplog must be discarded or decode to the recorded intents
fn restart_check(dir: &std::path::Path, intents: &BTreeMap<u64, Intent>, snapshotted: &BTreeSet<String>, orphaned: &BTreeSet<u64>, snapshotting: Option<&str>, reclaiming: bool) -> Result<(), (String, String, bool)> {
    let copy = fresh_dir("c16-restart");
    crash::copy_tree(dir, &copy);
    let ctx2 = NodeCtx::new(copy.clone(), 5_000_000);
    let r = std::panic::catch_unwind(std::panic::AssertUnwindSafe(|| Node::start(ctx2, "n1:1", 1)));
    let res = (|| {
        let n = match r {
            Err(e) => {
                // known: a kill inside the very first snapshot of a database leaves its key file
                // without a values file (same root cause as the C11 findings)
                let first = snapshotting.map(|d| !snapshotted.contains(d)).unwrap_or(false);
                // known as well (C11's KF-C11-07/08 seen from here): a kill while a reclaiming
                // snapshot has the values file moved away leaves a keys file without a values file
                let soft = first || reclaiming;
                let loc = take_panic_loc().unwrap_or_default().replace("/repo/", "");
                return Err((if first { "startup-panic-in-first-snapshot".to_string() } else if reclaiming { "startup-panic-in-killed-reclaiming-snapshot".to_string() } else { "startup-panic".to_string() }, format!("{} at {}", panic_msg(&e), loc), soft));
            }
            Ok(n) => n,
        };
        n.shutdown();
        let recs = parse_oplog(&copy);
        let id_db = n.dbs.id_name_db_map.read().unwrap().clone();
        let id_key = n.dbs.id_keys_map.read().unwrap().clone();
        for (t, k, d, op) in recs.iter() {
            let intent = match intents.get(t) {
                Some(i) => i,
                None => continue, // a record the driver did not cause (none expected)
            };
            let got_db = id_db.get(d);
            if got_db != Some(&intent.0) {
                // known: a database that was never snapshotted vanishes at restart while the log stays valid
                let soft = !snapshotted.contains(&intent.0) || orphaned.contains(t);
                // known: a kill inside a database's very first snapshot leaves its data files
                // without a metadata file; start-up then gives it the number of databases loaded
                // so far as identifier, which can be the identifier of another database
                // known (the C11 findings seen from here): a reclaiming snapshot moves the keys file
                // away before it writes the new one; a kill in that window leaves the database
                // without a keys file, it is not loaded, and the valid log still refers to it
                if !soft && reclaiming && got_db.is_none() && snapshotting == Some(intent.0.as_str()) {
                    return Err(("database-lost-by-a-killed-reclaiming-snapshot".to_string(), format!("record t={} written for database {} (id {}) decodes to no database after restart", t, intent.0, d), true));
                }
                let first_snapshot = snapshotting.map(|d| !snapshotted.contains(d)).unwrap_or(false);
                if !soft && first_snapshot {
                    return Err(("id-of-database-without-metadata-collides".to_string(), format!("record t={} written for database {} (id {}) decodes to {:?} after restart", t, intent.0, d, got_db), true));
                }
                return Err((
                    if soft { "record-of-never-snapshotted-database".to_string() } else { "record-decodes-to-wrong-database".to_string() },
                    format!("record t={} written for database {} (id {}) decodes to {:?} after restart", t, intent.0, d, got_db),
                    soft,
                ));
            }
            if *op == 0 || *op == 1 {
                let got_key = id_key.get(k);
                if got_key != intent.1.as_ref() {
                    return Err(("record-decodes-to-wrong-key".to_string(), format!("record t={} written for key {:?} (id {}) of {} decodes to {:?} after restart", t, intent.1, k, intent.0, got_key), false));
                }
            }
        }
        if let Err(e) = unique_ids(&n.dbs) {
            return Err(("identifier-shared-after-restart".to_string(), e, false));
        }
        Ok(())
    })();
    let _ = std::fs::remove_dir_all(&copy);
    res
}

impl W {
    fn absorb(&mut self) {
        // move queued messages into the real loops, remembering what each oplog record is for
        for _ in 0..20 {
            let (msgs, sup) = self.node.drain_queues();
            if msgs.is_empty() && sup.is_empty() {
                break;
            }
            for m in sup {
                self.loops.feed_sup(&self.node, m);
            }
            for m in msgs {
                let mut it = m.splitn(3, ' ');
                it.next();
                let id: u64 = it.next().unwrap().parse().unwrap();
                let inner = it.next().unwrap().to_string();
                let mut p = inner.split(' ');
                match p.next().unwrap() {
                    "create-db" => {
                        self.intents.insert(id, (p.next().unwrap().to_string(), None, 2));
                    }
                    "replicate" => {
                        let db = p.next().unwrap().to_string();
                        self.intents.insert(id, (db, Some(p.next().unwrap().to_string()), 0));
                    }
                    "replicate-remove" => {
                        let db = p.next().unwrap().to_string();
                        self.intents.insert(id, (db, Some(p.next().unwrap().to_string()), 1));
                    }
                    "replicate-snapshot" => {
                        // one record per database, all with this id: remember the first (single-db snapshots only)
                        let db = p.next().unwrap().split('|').next().unwrap().to_string();
                        self.intents.insert(id, (db, None, 3));
                    }
                    _ => {}
                }
                self.loops.feed_repl(&self.node, m);
            }
        }
    }
}

impl SeqModel for C16 {
    type World = W;
    fn letters(&self) -> Vec<String> {
        self.letters.iter().map(|l| format!("{:?}", l)).collect()
    }
    fn new_world(&self) -> W {
        let ctx = NodeCtx::new(fresh_dir("c16"), 1000);
        let node = Node::start(ctx.clone(), "n1:1", 1);
        node.set_role(ClusterRole::Primary);
        let loops = Loops::new(&node);
        let mut admin = Session::new();
        admin.exec(&node, &format!("auth {} {}", USER, PWD));
        W { ctx, node, loops, admin, intents: BTreeMap::new(), created: BTreeSet::new(), keys_written: 0, first_key: BTreeMap::new(), snapshotted: BTreeSet::new(), orphaned: BTreeSet::new(), steps: 0 }
    }
    fn drop_world(&self, w: W) {
        w.node.remove_dir()
    }
    fn key(&self, w: &W) -> String {
        let ids: BTreeMap<String, usize> = w.node.dbs.map.read().unwrap().iter().map(|(n, d)| (n.clone(), d.metadata.id)).collect();
        let km: BTreeMap<String, u64> = w.node.dbs.keys_map.read().unwrap().clone().into_iter().collect();
        let all: BTreeMap<String, BTreeMap<String, u8>> = dump_all(&w.node.dbs).into_iter().map(|(n, d)| (n, d.into_iter().map(|(k, v)| (k, v.state)).collect())).collect();
        let recs: Vec<(u64, u64, u8)> = parse_oplog(&w.ctx.dir).into_iter().map(|r| (r.1, r.2, r.3)).collect();
        let intents: Vec<&Intent> = w.intents.values().collect();
        let flag = std::fs::read(w.ctx.dir.join("is-oplog.valid")).unwrap_or_default();
        let keyfile = std::fs::read(w.ctx.dir.join("keys-nun.keys")).map(|b| b.len()).unwrap_or(0);
        // the order in which the last start-up met the directory entries is part of the key: what
        // start-up derives from that order (e.g. a counter) is state the other fields cannot see
        let order = w.ctx.dir_desc.load(std::sync::atomic::Ordering::SeqCst) && ids.len() > 2;
        format!("{:?}|{:?}|{:?}|{:?}|{:?}|{:?}|{}|{}|{:?}|{:?}|{}", ids, km, all, recs, intents, flag, keyfile, w.node.dbs.is_oplog_valid.load(std::sync::atomic::Ordering::SeqCst), w.created, (&w.first_key, &w.snapshotted, w.orphaned.len()), order)
    }
    fn enabled(&self, w: &W, letter: usize) -> bool {
        match &self.letters[letter] {
            L::CreateDb(i) => !w.node.dbs.has_db(DBS[*i]),
            L::NewKey(i) | L::Snapshot(i) | L::SnapshotReclaim(i) => w.node.dbs.has_db(DBS[*i]),
            L::Rewrite(i) => w.node.dbs.has_db(DBS[*i]) && w.first_key.contains_key(i),
            _ => true,
        }
    }
    fn step(&self, w: &mut W, letter: usize) -> Vec<StepViolation> {
        w.ctx.install();
        w.steps += 1;
        let l = self.letters[letter].clone();
        let out = fresh_dir("c16-states");
        crash::begin(&w.ctx.dir, &out);
        let mut restart_kind: Option<bool> = None;
        let r = std::panic::catch_unwind(std::panic::AssertUnwindSafe(|| {
            match &l {
                L::CreateDb(i) => {
                    w.admin.exec(&w.node, &format!("create-db {} tok{}", DBS[*i], i));
                    w.created.insert(*i);
                }
                L::NewKey(i) => {
                    let key = format!("k{}", w.keys_written);
                    w.keys_written += 1;
                    w.admin.exec(&w.node, &format!("use-db {} tok{}", DBS[*i], i));
                    w.admin.exec(&w.node, &format!("set {} v", key));
                    w.first_key.entry(*i).or_insert(key);
                }
                L::Rewrite(i) => {
                    let key = w.first_key[i].clone();
                    w.admin.exec(&w.node, &format!("use-db {} tok{}", DBS[*i], i));
                    w.admin.exec(&w.node, &format!("set {} w", key));
                }
                L::Snapshot(i) => {
                    w.admin.exec(&w.node, &format!("snapshot false {}", DBS[*i]));
                }
                L::SnapshotReclaim(i) => {
                    w.admin.exec(&w.node, &format!("snapshot true {}", DBS[*i]));
                }
                L::ShutdownRestart | L::ShutdownRestartReversed => restart_kind = Some(true),
                L::KillRestart => restart_kind = Some(false),
            }
            w.absorb();
            match &l {
                L::Snapshot(_) | L::SnapshotReclaim(_) => w.node.run_snapshot_queue(),
                L::ShutdownRestart | L::ShutdownRestartReversed => nundb::db_ops::safe_shutdown(&w.node.dbs),
                _ => {}
            }
        }));
        let ops = crash::end();
        if let Err(e) = r {
            let _ = std::fs::remove_dir_all(&out);
            return v("panic", format!("{:?}: {} at {:?}", l, panic_msg(&e), take_panic_loc()));
        }
        if let Some(d) = w.loops.dead() {
            let _ = std::fs::remove_dir_all(&out);
            return v("service-loop-died", format!("{:?}: {}", l, d));
        }
        let snapshotting: Option<&str> = if let L::Snapshot(i) | L::SnapshotReclaim(i) = &l { Some(DBS[*i]) } else { None };
        let mut softs: Vec<StepViolation> = vec![];
        let mut soft_seen: BTreeSet<String> = BTreeSet::new();
        // a kill at any instant of this step: the directory before each system call
        for k in 0..ops.len() {
            let dir = out.join(format!("state-{}", k));
            self.crash_states.fetch_add(1, std::sync::atomic::Ordering::Relaxed);
            {
                let mut g = self.crash_distinct.lock().unwrap();
                if g.len() < 2_000_000 {
                    g.insert(dir_digest(&dir));
                }
            }
            if let Err((clause, detail, soft)) = restart_check(&dir, &w.intents, &w.snapshotted, &w.orphaned, snapshotting, matches!(l, L::SnapshotReclaim(_))) {
                let op = ops[k].split(' ').take(2).collect::<Vec<_>>().join(" ");
                let sv = StepViolation {
                    clause: format!("kill:{}", clause),
                    detail: format!("kill during {:?} before system call #{} `{}` (of {:?}): {}", l, k, op, ops, detail),
                    shape: if soft { Some(format!("kill:{} during {}", clause, format!("{:?}", l).split('(').next().unwrap_or(""))) } else { None },
                    soft,
                };
                if !soft {
                    let _ = std::fs::remove_dir_all(&out);
                    return vec![sv];
                }
                if soft_seen.insert(sv.clause.clone()) {
                    softs.push(sv);
                }
            }
        }
        let _ = std::fs::remove_dir_all(&out);
        if let L::Snapshot(i) | L::SnapshotReclaim(i) = &l {
            w.snapshotted.insert(DBS[*i].to_string());
        }
        // identifiers unique while the node lives
        if let Err(e) = unique_ids(&w.node.dbs) {
            return v("identifier-shared", format!("after {:?}: {}", l, e));
        }
        // the state at the end of the step, restarted (kill right after the step)
        if let Err((clause, detail, soft)) = restart_check(&w.ctx.dir, &w.intents, &w.snapshotted, &w.orphaned, None, false) {
            let sv = StepViolation { clause: format!("restart:{}", clause), detail: format!("restart after {:?}: {}", l, detail), shape: if soft { Some(format!("restart:{}", clause)) } else { None }, soft };
            if !soft {
                return vec![sv];
            }
            softs.push(sv);
        }
        if restart_kind.is_some() {
            // really restart: the old process is gone
            w.node.shutdown();
            let ctx = w.ctx.clone();
            ctx.dir_desc.store(matches!(l, L::ShutdownRestartReversed), std::sync::atomic::Ordering::SeqCst);
            let r = std::panic::catch_unwind(std::panic::AssertUnwindSafe(|| Node::start(ctx, "n1:1", 1)));
            match r {
                Err(e) => return v("restart:startup-panic", format!("{:?}: {}", l, panic_msg(&e))),
                Ok(n) => {
                    n.set_role(ClusterRole::Primary);
                    w.node = n;
                    w.loops = Loops::new(&w.node);
                    w.admin = Session::new();
                    w.admin.exec(&w.node, &format!("auth {} {}", USER, PWD));
                    // intents of records that no longer exist are forgotten with the discarded log
                    let live: BTreeSet<u64> = parse_oplog(&w.ctx.dir).into_iter().map(|r| r.0).collect();
                    w.intents.retain(|t, _| live.contains(t));
                    // records of databases this restart dropped stay in a valid log: known finding
                    for (t, i) in w.intents.iter() {
                        if !w.node.dbs.has_db(&i.0) {
                            w.orphaned.insert(*t);
                        }
                    }
                    w.orphaned.retain(|t| live.contains(t));
                    w.snapshotted.retain(|d| w.node.dbs.has_db(d));
                    w.first_key.retain(|i, k| with_db(&w.node.dbs, DBS[*i], |d| dump_db(d).contains_key(k.as_str())).unwrap_or(false));
                    w.created = (0..DBS.len()).filter(|i| w.node.dbs.has_db(DBS[*i])).collect();
                }
            }
        }
        softs
    }
}

pub fn run(run: &mut Run) {
    let quick = run.quick();
    match crash::self_test() {
        Ok(n) => run.cov("interposition_selftest_ops", serde_json::json!(n)),
        Err(e) => {
            eprintln!("machinery: libc interposition self-test failed: {}", e);
            std::process::exit(2);
        }
    }
    let ndb = if quick { 2 } else { 3 };
    let mut letters = vec![];
    for i in 0..ndb {
        letters.push(L::CreateDb(i));
        letters.push(L::NewKey(i));
        letters.push(L::Snapshot(i));
    }
    letters.push(L::Rewrite(0));
    letters.push(L::ShutdownRestart);
    letters.push(L::ShutdownRestartReversed);
    letters.push(L::KillRestart);
    let m = C16 { letters, crash_states: Default::default(), crash_distinct: Default::default() };
    let cfg = SeqConfig { max_depth: if quick { 6 } else { 7 }, workers: crate::util::workers(), max_states: 2_000_000, budget: std::time::Duration::from_secs(if quick { 45 } else { 1500 }) };
    let res = explore(&m, &cfg);
    super::seq_report(run, &m, &res, &cfg);
    // second pass, from a non-initial state: two databases already created and snapshotted, then
    // every history of 3 more steps over the alphabet with a third database (no merging).  Reaches
    // "restart with several persisted databases, then create another one" inside the quick bound.
    let mut letters3 = vec![];
    for i in 0..3 {
        letters3.push(L::CreateDb(i));
        letters3.push(L::NewKey(i));
        letters3.push(L::Snapshot(i));
        letters3.push(L::SnapshotReclaim(i));
    }
    letters3.push(L::Rewrite(0));
    letters3.push(L::ShutdownRestart);
    letters3.push(L::ShutdownRestartReversed);
    letters3.push(L::KillRestart);
    let m3 = C16 { letters: letters3, crash_states: Default::default(), crash_distinct: Default::default() };
    {
        let names = m3.letters();
        let idx = |n: &str| names.iter().position(|l| l == n).unwrap();
        let prefix = vec![idx("CreateDb(0)"), idx("CreateDb(1)"), idx("Snapshot(0)"), idx("Snapshot(1)")];
        let all: Vec<usize> = (0..names.len()).collect();
        let depth = if quick { 3 } else { 4 };
        let res3 = crate::seq::explore_all_histories(&m3, &prefix, &all, depth, crate::util::workers(), std::time::Duration::from_secs(if quick { 60 } else { 1200 }));
        run.cov("second_pass", serde_json::json!({"root": ["CreateDb(0)", "CreateDb(1)", "Snapshot(0)", "Snapshot(1)"], "alphabet_size": names.len(), "depth": depth, "histories": res3.histories, "complete": res3.exhausted_bound, "merging": false}));
        let ex = run.coverage.get("exhaustive").and_then(|v| v.as_bool()).unwrap_or(false);
        let keep: Vec<(String, serde_json::Value)> = ["depth_bound", "alphabet_size", "depth_completed", "frontier_sizes"].iter().filter_map(|k| run.coverage.get(*k).map(|v| (k.to_string(), v.clone()))).collect();
        let cfg3 = SeqConfig { max_depth: depth, workers: 0, max_states: 0, budget: std::time::Duration::from_secs(0) };
        super::seq_report(run, &m3, &res3, &cfg3);
        for (k, v) in keep {
            run.cov(&k, v);
        }
        run.cov("exhaustive", serde_json::json!(ex && res3.exhausted_bound));
    }
    // third pass, from a node in its third life: keys logged and stored by a clean shutdown, one more key, a kill
    // (the next start discards the log while the stored keys map is the older one); then every history of 5 (6)
    // steps over new keys / snapshot / clean shutdown / kill, without merging
    let m4 = C16 { letters: vec![L::CreateDb(0), L::NewKey(0), L::Snapshot(0), L::ShutdownRestart, L::KillRestart], crash_states: Default::default(), crash_distinct: Default::default() };
    {
        let names = m4.letters();
        let idx = |n: &str| names.iter().position(|l| l == n).unwrap();
        let prefix = vec![idx("CreateDb(0)"), idx("NewKey(0)"), idx("Snapshot(0)"), idx("ShutdownRestart"), idx("NewKey(0)"), idx("KillRestart")];
        let sub = vec![idx("NewKey(0)"), idx("Snapshot(0)"), idx("ShutdownRestart"), idx("KillRestart")];
        let depth = if quick { 5 } else { 6 };
        let res4 = crate::seq::explore_all_histories(&m4, &prefix, &sub, depth, crate::util::workers(), std::time::Duration::from_secs(if quick { 40 } else { 600 }));
        run.cov("third_pass", serde_json::json!({"root": ["CreateDb(0)", "NewKey(0)", "Snapshot(0)", "ShutdownRestart", "NewKey(0)", "KillRestart"], "alphabet_size": sub.len(), "depth": depth, "histories": res4.histories, "complete": res4.exhausted_bound, "merging": false}));
        let ex = run.coverage.get("exhaustive").and_then(|v| v.as_bool()).unwrap_or(false);
        let keep: Vec<(String, serde_json::Value)> = ["depth_bound", "alphabet_size", "depth_completed", "frontier_sizes"].iter().filter_map(|k| run.coverage.get(*k).map(|v| (k.to_string(), v.clone()))).collect();
        let cfg4 = SeqConfig { max_depth: depth, workers: 0, max_states: 0, budget: std::time::Duration::from_secs(0) };
        super::seq_report(run, &m4, &res4, &cfg4);
        for (k, v) in keep {
            run.cov(&k, v);
        }
        run.cov("exhaustive", serde_json::json!(ex && res4.exhausted_bound));
    }
    key_snapshot_races(run, quick);
    let cs = m.crash_states.load(std::sync::atomic::Ordering::Relaxed) + m3.crash_states.load(std::sync::atomic::Ordering::Relaxed) + m4.crash_states.load(std::sync::atomic::Ordering::Relaxed);
    run.cov("evaluations", serde_json::json!(cs + res.transitions));
    run.cov("crash_states_restarted", serde_json::json!(cs));
    run.cov("distinct_nontrivial", serde_json::json!(m.crash_distinct.lock().unwrap().len()));
    run.cov("rule", serde_json::json!("every history up to the depth bound; inside every step one crash state per mutating system call (directory copied before the call) plus the state at the end of the step; each is restarted with the real start-up code; distinct = distinct directory contents among the crash states"));
    run.assume("a killed process loses user-space buffers only (prefixes of the system-call sequence, each call atomic)");
    run.assume("the driver remembers for every oplog record (by its op id) the database and key the writer was given");
}

// ------------------------------------------------------------------------------------------------
// The keys snapshot (declutter timer thread) racing the registration of a new key (replication
// loop, main thread). Both run as threads under the controlled scheduler; scheduling points are the
// acquisitions of the keys map's lock and every file write under the node's directory. After every
// interleaving the directory is what a kill right then would leave: it is restarted and, if the log
// is kept, every record must decode to the key it was written for.

struct KeyRaceWorld {
    node: Node,
    before: BTreeSet<u64>,
}

fn key_race_world(flag_valid_at_start: bool, new_keys: usize) -> (KeyRaceWorld, super::c15::SendFut, futures::channel::mpsc::Sender<String>, Vec<String>) {
    use super::c15::{poll_fut, SendFut};
    use futures::channel::mpsc::channel;
    let mut node = Node::new_single("c16race");
    let mut admin = Session::new();
    admin.exec(&node, &format!("auth {} {}", USER, PWD));
    admin.exec(&node, "create-db t tok none");
    admin.exec(&node, "use-db t tok");
    admin.exec(&node, "set k1 a");
    let (mut feed, loop_rx) = channel::<String>(1000);
    let mut fut = SendFut(Box::pin(nundb::replication_ops::start_replication_thread(loop_rx, node.dbs.clone())));
    poll_fut(&mut fut);
    let (queued, _) = node.drain_queues();
    for m in queued {
        let _ = feed.try_send(m);
        poll_fut(&mut fut);
    }
    // the database itself is persisted (a log record of a database that was never snapshotted is a listed finding of its own)
    admin.exec(&node, "snapshot false t");
    node.run_snapshot_queue();
    let (queued, _) = node.drain_queues();
    for m in queued {
        let _ = feed.try_send(m);
        poll_fut(&mut fut);
    }
    if !flag_valid_at_start {
        // one more key since the keys snapshot: the flag is invalid when the race starts
        admin.exec(&node, "set k1b a");
        let (queued, _) = node.drain_queues();
        for m in queued {
            let _ = feed.try_send(m);
            poll_fut(&mut fut);
        }
    }
    let mut msgs = vec![];
    for i in 0..new_keys {
        admin.exec(&node, &format!("set new{} b", i));
        let (queued, _) = node.drain_queues();
        msgs.extend(queued);
    }
    let before: BTreeSet<u64> = parse_oplog(&node.ctx.dir).iter().map(|r| r.0).collect();
    (KeyRaceWorld { node, before }, fut, feed, msgs)
}

pub fn key_snapshot_races(run: &mut Run, quick: bool) {
    use super::c15::poll_fut;
    use crate::ilv::*;
    use crate::report::Violation;
    SYSCALL_POINTS.store(true, std::sync::atomic::Ordering::SeqCst);
    // (flag valid when the race starts, new keys the loop registers, keys snapshots run by the timer thread)
    let mut configs: Vec<(bool, usize, usize)> = vec![(false, 1, 1), (true, 1, 1), (false, 2, 1)];
    if !quick {
        configs.push((true, 2, 1));
        configs.push((false, 1, 2));
        configs.push((false, 3, 1));
    }
    let mut total_exec = 0u64;
    let mut total_points = 0u64;
    let mut capped = 0u64;
    let mut outcomes: BTreeSet<String> = BTreeSet::new();
    for (valid0, new_keys, snaps) in configs.iter() {
        let shape = format!("keys snapshot x{} racing the registration of {} new key(s), flag {} at the start", snaps, new_keys, if *valid0 { "valid" } else { "invalid" });
        let mut found: Vec<Violation> = vec![];
        let mut mk = || {
            let (w, fut, feed, msgs) = key_race_world(*valid0, *new_keys);
            let ctx = w.node.ctx.clone();
            let mut bodies: Vec<Box<dyn FnOnce(&std::sync::Arc<Sched>) -> String + Send>> = vec![];
            let mut fut = fut;
            let mut feed = feed;
            bodies.push(Box::new(move |_s| {
                for m in msgs {
                    let _ = feed.try_send(m);
                    poll_fut(&mut fut);
                }
                std::mem::forget(feed);
                std::mem::forget(fut);
                "loop".to_string()
            }));
            let dbs = w.node.dbs.clone();
            let snaps = *snaps;
            bodies.push(Box::new(move |_s| {
                for _ in 0..snaps {
                    nundb::disk_ops::snapshot_keys(&dbs);
                }
                "keys-snapshot".to_string()
            }));
            (w, ctx, bodies)
        };
        let mut check = |w: KeyRaceWorld, x: &Execution<String>, choices: &[usize]| {
            let schedule: Vec<String> = x.points.iter().map(|p| p.what.clone()).collect();
            let mut push = |clause: &str, detail: String| {
                if !found.iter().any(|f| f.clause == clause) {
                    found.push(Violation { clause: clause.to_string(), shape: shape.clone(), detail, replay: serde_json::json!({"engine":"ilv","property":"C16","flag_valid_at_start":valid0,"new_keys":new_keys,"key_snapshots":snaps,"choices":choices,"schedule":schedule}) });
                }
            };
            if let Some(d) = &x.deadlock {
                push("deadlock", d.clone());
                w.node.remove_dir();
                return;
            }
            if x.results.iter().any(|r| r.is_none()) {
                push("handler-panic", format!("a thread panicked: {:?}", crate::world::PANIC_LOG.lock().unwrap().last()));
                w.node.remove_dir();
                return;
            }
            // what the writer meant: the running node's own id -> key table
            let intent = w.node.dbs.id_keys_map.read().unwrap().clone();
            let new_recs: Vec<(u64, u64, u64, u8)> = parse_oplog(&w.node.ctx.dir).into_iter().filter(|r| !w.before.contains(&r.0)).collect();
            let copy = fresh_dir("c16race-restart");
            crash::copy_tree(&w.node.ctx.dir, &copy);
            let ctx2 = NodeCtx::new(copy.clone(), 5_000_000);
            match std::panic::catch_unwind(std::panic::AssertUnwindSafe(|| Node::start(ctx2, "n1:1", 1))) {
                Err(e) => push("startup-panic", format!("{} ; schedule {:?}", panic_msg(&e), schedule)),
                Ok(n2) => {
                    n2.shutdown();
                    let kept: BTreeSet<u64> = parse_oplog(&copy).iter().map(|r| r.0).collect();
                    let id_key = n2.dbs.id_keys_map.read().unwrap().clone();
                    let mut log_kept = false;
                    for (t, k, _d, op) in new_recs.iter() {
                        if !kept.contains(t) {
                            continue;
                        }
                        log_kept = true;
                        if *op == 0 || *op == 1 {
                            let want = intent.get(k);
                            let got = id_key.get(k);
                            if got != want {
                                push("record-decodes-to-wrong-key", format!("the log is kept (flag valid) but the record t={} written for key {:?} (id {}) decodes to {:?} after a restart: the stored keys map does not have the key; schedule {:?}", t, want, k, got, schedule));
                            }
                        }
                    }
                    if let Err(e) = unique_ids(&n2.dbs) {
                        push("identifier-shared-after-restart", e);
                    }
                    outcomes.insert(format!("{}: log {} after restart, {} new record(s)", shape, if log_kept { "kept" } else { "discarded" }, new_recs.len()));
                }
            }
            let _ = std::fs::remove_dir_all(&copy);
            w.node.remove_dir();
        };
        match explore(if quick { 2 } else { 3 }, 100_000, std::time::Duration::from_secs(if quick { 15 } else { 300 }), &mut mk, &mut check) {
            Ok(st) => {
                total_exec += st.executions;
                total_points += st.points;
                capped += st.capped.is_some() as u64;
            }
            Err(RunError::Hang(m)) => {
                eprintln!("machinery: ILV C16 {}: {}", shape, m);
                std::process::exit(2);
            }
        }
        for v in found {
            run.violate(v);
        }
    }
    SYSCALL_POINTS.store(false, std::sync::atomic::Ordering::SeqCst);
    run.cov("key_snapshot_race_configs", serde_json::json!(configs.len()));
    run.cov("key_snapshot_race_executions", serde_json::json!(total_exec));
    run.cov("key_snapshot_race_scheduling_points", serde_json::json!(total_points));
    run.cov("key_snapshot_race_configs_capped", serde_json::json!(capped));
    run.cov("key_snapshot_race_outcomes", serde_json::json!(outcomes.into_iter().collect::<Vec<_>>()));
    run.cov_add("states", total_exec);
    run.cov_add("transitions", total_points);
    run.cov_add("traces_validated_against_impl", total_exec);
    run.assume("keys snapshot / new key race: the real replication loop (polled with the queued writes of new keys) and the real snapshot_keys run as threads under the controlled scheduler; scheduling points are the acquisitions of the keys map's lock and every file write under the node's directory; the directory after each interleaving is restarted");
}
