//! C02 — set-safe is an atomic compare-and-set; versions only grow; no lost update.
//! Sequential part: SEQ over version arguments. Concurrent part: ILV (see ilv.rs / c02_ilv).
use super::kv::*;
use crate::report::Run;
use crate::seq::*;
use std::collections::BTreeSet;
use std::sync::Mutex;

#[derive(Clone, Debug)]
enum Ver {
    Minus1,
    CurM1,
    Cur,
    CurP1,
    Big,
    /// the largest version a client can present (i32::MAX); a leaf letter: nothing can grow past it
    Max,
}

#[derive(Clone, Debug)]
enum L {
    Set { key: &'static str, val: &'static str },
    SetSafe { key: &'static str, ver: Ver },
    Inc { key: &'static str, by: i32 },
    Remove { key: &'static str },
    Snapshot,
}

pub struct C02 {
    letters: Vec<L>,
    pub outcomes: Mutex<BTreeSet<String>>,
}

impl C02 {
    pub fn new(quick: bool) -> C02 {
        let mut l = vec![];
        let keys: &[&'static str] = &["k", "j"];
        for k in keys {
            l.push(L::Set { key: k, val: "1" });
            l.push(L::Set { key: k, val: "x" });
            for ver in [Ver::Minus1, Ver::CurM1, Ver::Cur, Ver::CurP1, Ver::Big, Ver::Max] {
                l.push(L::SetSafe { key: k, ver });
            }
            l.push(L::Inc { key: k, by: 1 });
            // the version must grow whatever the amount is
            l.push(L::Inc { key: k, by: -2 });
            l.push(L::Inc { key: k, by: 0 });
            l.push(L::Remove { key: k });
        }
        l.push(L::Snapshot);
        C02 { letters: l, outcomes: Mutex::new(BTreeSet::new()) }
    }
}

fn v(clause: &str, detail: String) -> Vec<StepViolation> {
    vec![StepViolation { clause: clause.to_string(), detail, shape: None, soft: false }]
}

/// version reported by a real get-safe from the token session
fn reported(w: &mut KvWorld, key: &str) -> Result<i32, String> {
    let o = w.tok.exec(&w.node, &format!("get-safe {}", key));
    // Value(key,value,version)
    o.resp
        .trim_end_matches(')')
        .rsplit(',')
        .next()
        .and_then(|s| s.parse::<i32>().ok())
        .ok_or(format!("get-safe {} answered {:?}", key, o))
}

impl SeqModel for C02 {
    type World = KvWorld;
    fn letters(&self) -> Vec<String> {
        self.letters.iter().map(|l| format!("{:?}", l)).collect()
    }
    fn is_leaf(&self, letter: usize, _depth: usize) -> bool {
        // after a write at i32::MAX no version can be higher: the history is not continued
        matches!(self.letters[letter], L::SetSafe { ver: Ver::Max, .. })
    }
    fn new_world(&self) -> KvWorld {
        KvWorld::new("c02", "none")
    }
    fn drop_world(&self, w: KvWorld) {
        w.finish()
    }
    fn key(&self, w: &KvWorld) -> String {
        format!("{:?}|{:?}|{}", w.model, w.max_version, w.impl_key())
    }
    fn step(&self, w: &mut KvWorld, letter: usize) -> Vec<StepViolation> {
        w.node.ctx.install();
        let l = self.letters[letter].clone();
        match &l {
            L::Snapshot => {
                let o = w.admin.exec(&w.node, "snapshot false");
                w.node.run_snapshot_queue();
                w.node.drain_queues();
                if o.resp != "Ok" {
                    return v("reply-mismatch", format!("snapshot: {:?}", o));
                }
                vec![]
            }
            L::Remove { key } => {
                let o = w.tok.exec(&w.node, &format!("remove {}", key));
                w.node.drain_queues();
                if o.resp != "Ok" {
                    return v("reply-mismatch", format!("remove: {:?}", o));
                }
                w.model.remove(*key);
                w.max_version.remove(*key);
                vec![]
            }
            L::Set { .. } | L::SetSafe { .. } | L::Inc { .. } => {
                let key = match &l {
                    L::Set { key, .. } | L::SetSafe { key, .. } | L::Inc { key, .. } => *key,
                    _ => unreachable!(),
                };
                let before = match reported(w, key) {
                    Ok(x) => x,
                    Err(e) => return v("reply-mismatch", e),
                };
                let live = w.model.contains_key(key);
                let tomb = !live && w.db_dump().contains_key(key);
                // Some(true/false) = required outcome, None = either (ambiguous in the statement)
                let (line, expect_accept, newval): (String, Option<bool>, Option<String>) = match &l {
                    L::Set { val, .. } => (format!("set {} {}", key, val), Some(true), Some(val.to_string())),
                    L::SetSafe { ver, .. } => {
                        let vnum = match ver {
                            Ver::Minus1 => -1,
                            Ver::CurM1 => before - 1,
                            Ver::Cur => before,
                            Ver::CurP1 => before + 1,
                            Ver::Big => 1000,
                            Ver::Max => i32::MAX,
                        };
                        let exp = if vnum == -1 {
                            Some(true) // -1 is the "unversioned" sentinel: a plain write
                        } else if live {
                            Some(vnum >= before)
                        } else if tomb {
                            None // absent to get, yet get-safe reports a tombstone version
                        } else {
                            Some(true)
                        };
                        (format!("set-safe {} {} s{}", key, vnum, w.steps), exp, Some(format!("s{}", w.steps)))
                    }
                    L::Inc { by, .. } => {
                        let cur = w.model.get(key).cloned().unwrap_or("0".into());
                        let line = if *by == 1 { format!("increment {}", key) } else { format!("increment {} {}", key, by) };
                        match parse_int(&cur).and_then(|c| c.checked_add(*by)) {
                            Some(n) => (line, Some(true), Some(n.to_string())),
                            None => (line, Some(false), None),
                        }
                    }
                    _ => unreachable!(),
                };
                let o = w.tok.exec(&w.node, &line);
                w.node.drain_queues();
                w.steps += 1;
                if let Some(p) = &o.panic {
                    return v("panic", format!("{} panicked: {}", line, p));
                }
                let accepted = o.resp == "Ok";
                self.outcomes.lock().unwrap().insert(format!(
                    "{}:{}",
                    format!("{:?}", l).split(' ').next().unwrap_or(""),
                    o.resp.split('(').next().unwrap_or("")
                ));
                if let Some(exp) = expect_accept {
                    if exp != accepted {
                        return v(
                            if exp { "refused-valid-version" } else { "accepted-stale-version" },
                            format!("`{}` with get-safe version {} before (live={} tombstone={}): reply {:?}", line, before, live, tomb, o.resp),
                        );
                    }
                }
                if accepted {
                    let after = match reported(w, key) {
                        Ok(x) => x,
                        Err(e) => return v("reply-mismatch", e),
                    };
                    if let Some(mx) = w.max_version.get(key) {
                        if after <= *mx {
                            return v(
                                "version-not-increasing",
                                format!("`{}` accepted but get-safe version went {} -> {} (max since creation {})", line, before, after, mx),
                            );
                        }
                    }
                    let e = w.max_version.entry(key.to_string()).or_insert(after);
                    *e = (*e).max(after);
                    if let Some(nv) = newval {
                        w.model.insert(key.to_string(), nv);
                    }
                } else {
                    let after = match reported(w, key) {
                        Ok(x) => x,
                        Err(e) => return v("reply-mismatch", e),
                    };
                    if after != before {
                        return v("refused-command-changed-state", format!("`{}` refused but version {} -> {}", line, before, after));
                    }
                }
                if let Err(e) = w.read_paths_agree(&["k", "j"]) {
                    return v("state-mismatch", format!("after `{}`: {}", line, e));
                }
                vec![]
            }
        }
    }
}

pub fn run_seq(run: &mut Run) {
    let quick = run.quick();
    let m = C02::new(quick);
    let cfg = SeqConfig {
        max_depth: if quick { 5 } else { 7 },
        workers: crate::util::workers(),
        max_states: 4_000_000,
        budget: std::time::Duration::from_secs(if quick { 40 } else { 1200 }),
    };
    let res = explore(&m, &cfg);
    super::seq_report(run, &m, &res, &cfg);
    let deep = ["Set { key: \"k\", val: \"1\" }", "SetSafe { key: \"k\", ver: CurM1 }", "SetSafe { key: \"k\", ver: Cur }", "Inc { key: \"k\", by: 1 }", "Inc { key: \"k\", by: -2 }", "Remove { key: \"k\" }", "Snapshot"];
    super::deep_pass(run, &m, &deep, if quick { 6 } else { 8 }, if quick { 30 } else { 900 });
    run.cov("seq_distinct_outcomes", serde_json::json!(m.outcomes.lock().unwrap().iter().cloned().collect::<Vec<_>>()));
    run.assume("set-safe with version -1 is the unversioned sentinel (treated as a plain write)");
    run.assume("set-safe to a key that was persisted and then removed: either outcome accepted (statement ambiguous: absent to get, tombstone version in get-safe)");
}

pub fn run(run: &mut Run) {
    run_seq(run);
    let ex = run.coverage.get("exhaustive").and_then(|v| v.as_bool()).unwrap_or(false);
    super::c02_ilv::run(run);
    let capped = run.coverage.get("ilv_configs_capped").and_then(|v| v.as_u64()).unwrap_or(0);
    run.cov("exhaustive", serde_json::json!(ex && capped == 0));
}
