//! C12 — the operation-log query never misses an operation.
//! Exhaustive over log shapes x since values on the real writer (Oplog::try_write_op_log, the real
//! replication loop) and the real readers (read_operations_since, get_pendding_opps_since,
//! Oplog::last_op_time). Rotation runs in child processes (NUN_MAX_OP_LOG_SIZE is read once).
use crate::loops::Loops;
use crate::report::{Run, Violation};
use crate::world::*;
use nundb::bo::*;
use nundb::disk_ops::{read_operations_since, Oplog};
use serde_json::json;
use std::collections::{BTreeMap, BTreeSet};

fn viol(run: &mut Run, clause: &str, shape: String, detail: String, replay: serde_json::Value) {
    run.violate(Violation { clause: clause.to_string(), shape, detail, replay });
}

/// all compositions of n into runs (lengths of runs of equal timestamps)
fn compositions(n: usize) -> Vec<Vec<usize>> {
    if n == 0 {
        return vec![vec![]];
    }
    let mut out = vec![];
    for mask in 0..(1u32 << (n - 1)) {
        let mut runs = vec![];
        let mut cur = 1;
        for i in 0..(n - 1) {
            if mask & (1 << i) != 0 {
                runs.push(cur);
                cur = 1;
            } else {
                cur += 1;
            }
        }
        runs.push(cur);
        out.push(runs);
    }
    out
}

fn since_candidates(ts: &[u64]) -> Vec<u64> {
    let mut s = BTreeSet::new();
    if ts.is_empty() {
        s.insert(5);
        return s.into_iter().collect();
    }
    s.insert(ts[0] - 1);
    for t in ts {
        s.insert(*t);
        s.insert(*t - 1);
        s.insert(*t + 1);
    }
    s.insert(ts[ts.len() - 1] + 1);
    s.into_iter().filter(|x| *x > 0).collect()
}

fn shape_of(ts: &[u64]) -> String {
    // run-length shape, e.g. "1,1,3,1" ; since is described relative to the records
    let mut runs: Vec<usize> = vec![];
    let mut last = None;
    for t in ts {
        if Some(*t) == last {
            *runs.last_mut().unwrap() += 1;
        } else {
            runs.push(1);
            last = Some(*t);
        }
    }
    format!("runs={:?}", runs)
}

fn rel_since(ts: &[u64], since: u64) -> String {
    match ts.iter().position(|t| *t == since) {
        Some(i) => format!("since=t[{}]", i),
        None => {
            let below = ts.iter().filter(|t| **t < since).count();
            format!("since between record {} and {}", below as i64 - 1, below)
        }
    }
}

/// L1: which records are returned, on raw logs where every record has its own (db,key)
fn raw_logs(run: &mut Run, max_n_strict: usize, max_n_runs: usize) {
    let ctx = NodeCtx::new(fresh_dir("c12raw"), 1000);
    ctx.install();
    let mut queries = 0u64;
    let mut logs = 0u64;
    let mut shapes: Vec<Vec<u64>> = vec![];
    for n in 0..=max_n_strict {
        shapes.push((0..n).map(|i| 100 + 10 * i as u64).collect());
    }
    for n in 2..=max_n_runs {
        for comp in compositions(n) {
            if comp.iter().all(|r| *r == 1) {
                continue;
            }
            let mut ts = vec![];
            let mut t = 100;
            for r in comp {
                for _ in 0..r {
                    ts.push(t);
                }
                t += 10;
            }
            shapes.push(ts);
        }
    }
    for ts in shapes.iter() {
        Oplog::clean_op_log_metadata_files();
        {
            let mut stream = Oplog::get_log_file_append_mode();
            for (i, t) in ts.iter().enumerate() {
                Oplog::try_write_op_log(&mut stream, Some(7), 100 + i as u64, &ReplicateOpp::Update, *t).unwrap();
            }
        }
        logs += 1;
        let last = Oplog::last_op_time();
        let want_last = ts.last().cloned().unwrap_or(0);
        if last != want_last {
            viol(run, "last-op-time-wrong", format!("raw {}", shape_of(ts)), format!("log {:?}: last_op_time()={} newest record={}", ts, last, want_last), json!({"engine":"c12-raw","timestamps":ts}));
        }
        for since in since_candidates(ts) {
            queries += 1;
            let got: BTreeSet<usize> = match std::panic::catch_unwind(|| read_operations_since(since)) {
                Ok(m) => m.values().map(|r| (r.key - 100) as usize).collect(),
                Err(e) => {
                    viol(run, "query-panic", format!("raw {} {}", shape_of(ts), rel_since(ts, since)), format!("log {:?} since {}: {}", ts, since, panic_msg(&e)), json!({"engine":"c12-raw","timestamps":ts,"since":since}));
                    continue;
                }
            };
            let want: BTreeSet<usize> = (0..ts.len()).filter(|i| ts[*i] >= since).collect();
            // the statement demands "never misses"; returning older records as well is allowed
            if !want.is_subset(&got) {
                let missing: Vec<_> = want.difference(&got).collect();
                let extra: Vec<_> = got.difference(&want).collect();
                viol(
                    run,
                    "record-missed",
                    format!("raw {} {}", shape_of(ts), rel_since(ts, since)),
                    format!("log timestamps {:?}, since {}: missing record indices {:?}, extra {:?}", ts, since, missing, extra),
                    json!({"engine":"c12-raw","timestamps":ts,"since":since}),
                );
            }
            if queries <= 3 {
                run.sample(json!({"raw_log_timestamps": ts, "since": since, "returned_indices": got}));
            }
        }
    }
    let _ = std::fs::remove_dir_all(&ctx.dir);
    run.cov_add("raw_logs", logs);
    run.cov_add("raw_queries", queries);
    run.cov_add("states", logs);
    run.cov_add("transitions", queries);
}

/// L1b: which kind a key is labelled with, on raw logs in which records share keys: every log of
/// up to `max_n` records over 2 keys x {update, remove} x timestamps that stay or advance.
/// "Most recent" is the record written last (timestamps never go back in a log, so among equal
/// timestamps the later record is the more recent one).
fn raw_kind_logs(run: &mut Run, max_n: usize) {
    let ctx = NodeCtx::new(fresh_dir("c12kind"), 1000);
    ctx.install();
    let (mut logs, mut queries) = (0u64, 0u64);
    // a record: (key 0/1, is_remove, advance the clock before it?)
    let mut all: Vec<Vec<(usize, bool, bool)>> = vec![vec![]];
    let mut frontier = all.clone();
    for _ in 0..max_n {
        let mut next = vec![];
        for l in frontier.iter() {
            for key in 0..2 {
                for rm in [false, true] {
                    for adv in [true, false] {
                        if l.is_empty() && !adv {
                            continue;
                        }
                        let mut m = l.clone();
                        m.push((key, rm, adv));
                        next.push(m);
                    }
                }
            }
        }
        all.extend(next.iter().cloned());
        frontier = next;
    }
    for l in all.iter().filter(|l| !l.is_empty()) {
        Oplog::clean_op_log_metadata_files();
        let mut ts = vec![];
        {
            let mut stream = Oplog::get_log_file_append_mode();
            let mut t = 90u64;
            for (key, rm, adv) in l.iter() {
                if *adv {
                    t += 10;
                }
                ts.push(t);
                Oplog::try_write_op_log(&mut stream, Some(7), 100 + *key as u64, if *rm { &ReplicateOpp::Remove } else { &ReplicateOpp::Update }, t).unwrap();
            }
        }
        logs += 1;
        let describe = || l.iter().zip(ts.iter()).map(|((k, rm, _), t)| format!("{}@{}:k{}", if *rm { "remove" } else { "update" }, t, k)).collect::<Vec<_>>().join(" ");
        let kinds_shape = || l.iter().map(|(k, rm, adv)| format!("{}{}k{}", if *adv { "" } else { "=" }, if *rm { "R" } else { "U" }, k)).collect::<Vec<_>>().join(" ");
        for since in since_candidates(&ts) {
            queries += 1;
            let got: BTreeMap<usize, bool> = match std::panic::catch_unwind(|| read_operations_since(since)) {
                Ok(m) => m.values().map(|r| ((r.key - 100) as usize, r.opp.to_u8() == ReplicateOpp::Remove.to_u8())).collect(),
                Err(e) => {
                    viol(run, "query-panic", format!("raw kinds {}", kinds_shape()), format!("log [{}] since {}: {}", describe(), since, panic_msg(&e)), json!({"engine":"c12-raw-kinds","log":describe(),"since":since}));
                    continue;
                }
            };
            for key in 0..2 {
                // the last record of the key, if it is at or after `since`, decides
                let last = l.iter().zip(ts.iter()).filter(|((k, _, _), _)| *k == key).last();
                if let Some(((_, rm, _), t)) = last {
                    if *t >= since {
                        match got.get(&key) {
                            None => viol(run, "record-missed", format!("raw kinds {} {}", kinds_shape(), rel_since(&ts, since)), format!("log [{}] since {}: key k{} not returned", describe(), since, key), json!({"engine":"c12-raw-kinds","log":describe(),"since":since})),
                            Some(g) if g != rm => viol(
                                run,
                                "operation-mislabelled",
                                format!("raw kinds {} {}", kinds_shape(), rel_since(&ts, since)),
                                format!("log [{}] since {}: key k{} labelled {}, its most recent record is {}", describe(), since, key, if *g { "remove" } else { "update" }, if *rm { "a remove" } else { "an update" }),
                                json!({"engine":"c12-raw-kinds","log":describe(),"since":since}),
                            ),
                            _ => {}
                        }
                    }
                }
            }
        }
    }
    let _ = std::fs::remove_dir_all(&ctx.dir);
    run.cov_add("raw_kind_logs", logs);
    run.cov_add("raw_kind_queries", queries);
    run.cov_add("states", logs);
    run.cov_add("transitions", queries);
}

#[derive(Clone, Copy, Debug, PartialEq, Eq, PartialOrd, Ord)]
pub enum Op {
    CreateDb(usize),
    Set(usize, usize),
    Remove(usize, usize),
    Snapshot(usize),
}

const DBS: [&str; 2] = ["da", "db"];
const KEYS: [&str; 3] = ["k0", "k1", "k2"];

fn op_name(o: &Op) -> String {
    match o {
        Op::CreateDb(d) => format!("create-db {}", DBS[*d]),
        Op::Set(d, k) => format!("set {}.{}", DBS[*d], KEYS[*k]),
        Op::Remove(d, k) => format!("remove {}.{}", DBS[*d], KEYS[*k]),
        Op::Snapshot(d) => format!("snapshot {}", DBS[*d]),
    }
}

/// L2: end to end. Client operations on a primary, the real replication loop writes the log,
/// the real catch-up query answers for every `since` = an op id of the log (and +-1).
fn end_to_end(run: &mut Run, max_len: usize) {
    let mut alphabet = vec![];
    for d in 0..2 {
        alphabet.push(Op::CreateDb(d));
        alphabet.push(Op::Snapshot(d));
        for k in 0..3 {
            alphabet.push(Op::Set(d, k));
            alphabet.push(Op::Remove(d, k));
        }
    }
    let mut histories = 0u64;
    let mut queries = 0u64;
    let mut seen_shapes: BTreeSet<String> = BTreeSet::new();
    // all sequences of length 1..=max_len in which every op addresses an existing database
    fn rec(cur: &mut Vec<Op>, alphabet: &[Op], max_len: usize, out: &mut Vec<Vec<Op>>) {
        if !cur.is_empty() {
            out.push(cur.clone());
        }
        if cur.len() == max_len {
            return;
        }
        for o in alphabet {
            let created: BTreeSet<usize> = cur.iter().filter_map(|x| if let Op::CreateDb(d) = x { Some(*d) } else { None }).collect();
            let ok = match o {
                Op::CreateDb(d) => !created.contains(d),
                Op::Set(d, _) | Op::Remove(d, _) | Op::Snapshot(d) => created.contains(d),
            };
            if ok {
                cur.push(*o);
                rec(cur, alphabet, max_len, out);
                cur.pop();
            }
        }
    }
    let mut all = vec![];
    rec(&mut vec![], &alphabet, max_len, &mut all);
    for hist in all.iter() {
        histories += 1;
        let mut node = Node::new_single("c12e2e");
        let mut loops = Loops::new(&node);
        let mut admin = Session::new();
        admin.exec(&node, &format!("auth {} {}", USER, PWD));
        // (op id, db, pseudo key, kind) as written by the loop, reconstructed from the queue
        let mut written: Vec<(u64, String, String, &'static str)> = vec![];
        let mut n = 0;
        for o in hist {
            n += 1;
            match o {
                Op::CreateDb(d) => {
                    admin.exec(&node, &format!("create-db {} tok{}", DBS[*d], d));
                }
                Op::Set(d, k) => {
                    admin.exec(&node, &format!("use-db {} tok{}", DBS[*d], d));
                    admin.exec(&node, &format!("set {} v{}", KEYS[*k], n));
                }
                Op::Remove(d, k) => {
                    admin.exec(&node, &format!("use-db {} tok{}", DBS[*d], d));
                    admin.exec(&node, &format!("remove {}", KEYS[*k]));
                }
                Op::Snapshot(d) => {
                    admin.exec(&node, &format!("snapshot false {}", DBS[*d]));
                }
            }
            let (msgs, sup) = node.drain_queues();
            for m in sup {
                loops.feed_sup(&node, m);
            }
            for m in msgs {
                // "rp <id> <request>"
                let mut it = m.splitn(3, ' ');
                it.next();
                let id: u64 = it.next().unwrap().parse().unwrap();
                let inner = it.next().unwrap().to_string();
                let mut p = inner.split(' ');
                match p.next().unwrap() {
                    "create-db" => written.push((id, p.next().unwrap().to_string(), "<create-db>".into(), "create-db")),
                    "replicate" => {
                        let db = p.next().unwrap().to_string();
                        written.push((id, db, p.next().unwrap().to_string(), "update"))
                    }
                    "replicate-remove" => {
                        let db = p.next().unwrap().to_string();
                        written.push((id, db, p.next().unwrap().to_string(), "remove"))
                    }
                    "replicate-snapshot" => {
                        for db in p.next().unwrap().split('|') {
                            written.push((id, db.to_string(), "<snapshot>".into(), "snapshot"))
                        }
                    }
                    _ => {}
                }
                loops.feed_repl(&node, m);
            }
        }
        if let Some(d) = loops.dead() {
            viol(run, "service-loop-died", format!("e2e {}", hist.iter().map(op_name).collect::<Vec<_>>().join(" ; ")), d, json!({"engine":"c12-e2e","history":hist.iter().map(op_name).collect::<Vec<_>>()}));
            node.remove_dir();
            continue;
        }
        node.ctx.install();
        let ids: Vec<u64> = written.iter().map(|w| w.0).collect();
        let last = Oplog::last_op_time();
        if last != ids.last().cloned().unwrap_or(0) {
            viol(run, "last-op-time-wrong", format!("e2e {}", hist.iter().map(op_name).collect::<Vec<_>>().join(" ; ")), format!("last_op_time()={} newest record id={:?}", last, ids.last()), json!({"engine":"c12-e2e","history":hist.iter().map(op_name).collect::<Vec<_>>()}));
        }
        let mut sinces: BTreeSet<u64> = BTreeSet::new();
        for id in ids.iter() {
            sinces.insert(*id);
            sinces.insert(*id - 1);
            sinces.insert(*id + 1);
        }
        for since in sinces {
            queries += 1;
            let dbs = node.dbs.clone();
            let got = match std::panic::catch_unwind(std::panic::AssertUnwindSafe(|| nundb::replication_ops::get_pendding_opps_since(since, &dbs))) {
                Ok(g) => g,
                Err(e) => {
                    let shape = format!("e2e {} ; since#{}", hist.iter().map(op_name).collect::<Vec<_>>().join(" ; "), ids.iter().filter(|i| **i < since).count());
                    if seen_shapes.insert(format!("panic{}", shape)) {
                        viol(run, "query-panic", shape, format!("since {}: {} at {:?}", since, panic_msg(&e), take_panic_loc()), json!({"engine":"c12-e2e","history":hist.iter().map(op_name).collect::<Vec<_>>(),"since":since}));
                    }
                    continue;
                }
            };
            // required: every (db, key) with a record at or after since, labelled with the kind of
            // its most recent record; older (db, key)s may be returned too, with the right label
            let mut newest: BTreeMap<(String, String), (&'static str, u64)> = BTreeMap::new();
            for (id, db, key, kind) in written.iter() {
                newest.insert((db.clone(), key.clone()), (kind, *id));
            }
            let label = |db: &String, key: &String, kind: &str| match kind {
                "create-db" => format!("create-db {}", db),
                "snapshot" => format!("replicate-snapshot {}", db),
                "remove" => format!("replicate-remove {} {}", db, key),
                _ => format!("replicate {} {}", db, key),
            };
            let mut want: BTreeSet<String> = BTreeSet::new();
            let mut allowed: BTreeSet<String> = BTreeSet::new();
            for ((db, key), (kind, id)) in newest.iter() {
                allowed.insert(label(db, key, kind));
                if *id >= since {
                    want.insert(label(db, key, kind));
                }
            }
            // compare on (kind, db, key): values/tokens are C05's business
            let got_norm: BTreeSet<String> = got
                .iter()
                .map(|g| {
                    let mut p = g.split(' ');
                    let w = p.next().unwrap_or("");
                    match w {
                        "create-db" | "replicate-snapshot" => format!("{} {}", w, p.next().unwrap_or("")),
                        _ => format!("{} {} {}", w, p.next().unwrap_or(""), p.next().unwrap_or("")),
                    }
                })
                .collect();
            if !want.is_subset(&got_norm) || !got_norm.is_subset(&allowed) {
                let shape = format!("e2e {} ; since#{}", hist.iter().map(op_name).collect::<Vec<_>>().join(" ; "), ids.iter().filter(|i| **i < since).count());
                let missing: Vec<_> = want.difference(&got_norm).cloned().collect();
                let extra: Vec<_> = got_norm.difference(&allowed).cloned().collect();
                viol(
                    run,
                    if !missing.is_empty() { "operation-missed-or-mislabelled" } else { "operation-mislabelled" },
                    shape,
                    format!("log {:?}, since {}: catch-up answered {:?}; missing {:?}, unexpected {:?}", written, since, got, missing, extra),
                    json!({"engine":"c12-e2e","history":hist.iter().map(op_name).collect::<Vec<_>>(),"since":since}),
                );
            }
            if queries % 5000 == 1 {
                run.sample(json!({"history": hist.iter().map(op_name).collect::<Vec<_>>(), "since_rank": ids.iter().filter(|i| **i < since).count(), "answer": got}));
            }
        }
        node.remove_dir();
    }
    run.cov_add("e2e_histories", histories);
    run.cov_add("e2e_queries", queries);
    run.cov_add("states", histories);
    run.cov_add("transitions", queries);
    run.cov_add("traces_validated_against_impl", histories);
}

/// Child-process body: NUN_MAX_OP_LOG_SIZE (read once per process) is set by the parent.
/// Prints "V\t<clause>\t<shape>\t<detail>" and "S\t<logs>\t<queries>" lines.
pub fn rotation_worker(tier: &str) {
    let size: u64 = std::env::var("NUN_MAX_OP_LOG_SIZE").unwrap().parse().unwrap();
    let per_file_limit = size / 10;
    let max_n: usize = if tier == "quick" { 14 } else { 30 };
    let ctx = NodeCtx::new(fresh_dir("c12rot"), 1000);
    ctx.install();
    let (s0, r0): (futures::channel::mpsc::Sender<String>, _) = futures::channel::mpsc::channel(10);
    let (s1, r1): (futures::channel::mpsc::Sender<String>, futures::channel::mpsc::Receiver<String>) = futures::channel::mpsc::channel(10);
    let _keep = (r0, r1);
    let dbs = std::sync::Arc::new(Databases::new("u".into(), "p".into(), "n:1".into(), "n:1".into(), s0, s1, std::collections::HashMap::new(), 1, true));
    let mut logs = 0;
    let mut queries = 0;
    let oplog_dir = ctx.dir.join("oplog");
    let count_rotated = || std::fs::read_dir(&oplog_dir).map(|d| d.count()).unwrap_or(0);
    // timestamp shapes: strictly increasing; plateaus of four equal timestamps (longer than a small file, so a
    // plateau straddles rotations); one timestamp for every record
    for (shape, n) in (0..3usize).flat_map(|sh| (1..=max_n).map(move |n| (sh, n))) {
        Oplog::clean_op_log_metadata_files();
        let ts: Vec<u64> = (0..n).map(|i| match shape { 0 => 100 + 10 * i as u64, 1 => 100 + 10 * (i / 4) as u64, _ => 500 }).collect();
        {
            let mut stream = Oplog::get_log_file_append_mode();
            let mut rotated = count_rotated();
            for (i, t) in ts.iter().enumerate() {
                Oplog::try_write_op_log(&mut stream, Some(7), 100 + i as u64, &ReplicateOpp::Update, *t).unwrap();
                let r = count_rotated();
                if r != rotated {
                    rotated = r;
                    // rotated files are ordered by birth time: keep births apart
                    std::thread::sleep(std::time::Duration::from_millis(12));
                }
            }
        }
        // birth times must be distinct, else the run says nothing about ordering
        let mut births: Vec<std::time::SystemTime> = std::fs::read_dir(&oplog_dir).map(|d| d.flatten().map(|e| e.metadata().unwrap().created().unwrap()).collect()).unwrap_or_default();
        let nb = births.len();
        births.sort();
        births.dedup();
        if births.len() != nb {
            println!("M\tbirth times of rotated files collide ({} files, {} distinct)", nb, births.len());
            std::process::exit(2);
        }
        logs += 1;
        for phase in 0..2 {
            if phase == 1 {
                nundb::disk_ops::verif_declutter(&dbs);
            }
            let kept_from = if phase == 0 { 0 } else { n.saturating_sub((size / 25) as usize) };
            let last = Oplog::last_op_time();
            if last != *ts.last().unwrap() {
                println!("V\tlast-op-time-wrong\trotation size={} n={} files={} phase={} shape={}\tlast_op_time()={} newest record={}", per_file_limit, n, nb, phase, shape, last, ts.last().unwrap());
            }
            for since in since_candidates(&ts) {
                queries += 1;
                let got: BTreeSet<usize> = match std::panic::catch_unwind(|| read_operations_since(since)) {
                    Ok(m) => m.values().map(|r| (r.key - 100) as usize).collect(),
                    Err(e) => {
                        println!("V\tquery-panic\trotation size={} n={} {}\t{}", per_file_limit, n, rel_since(&ts, since), panic_msg(&e));
                        continue;
                    }
                };
                let want: BTreeSet<usize> = (kept_from..n).filter(|i| ts[*i] >= since).collect();
                if !want.is_subset(&got) {
                    let missing: Vec<_> = want.difference(&got).cloned().collect();
                    // whole files are dropped: when the current file is not full, up to one file's
                    // worth of records minus one falls out although the log is below its size
                    let per_file = (per_file_limit / 25).max(1) as usize;
                    let granularity_only = phase == 1 && missing.iter().all(|i| *i < kept_from + per_file - 1);
                    println!(
                        "V\t{}\trotation file_limit={}B n={} rotated_files={} timestamps={} {}\tsince {}: missing record indices {:?} (returned {:?})",
                        if phase == 0 { "record-missed" } else if granularity_only { "record-within-log-size-dropped-with-its-whole-file" } else { "record-within-log-size-dropped" },
                        per_file_limit, n, nb, ["increasing", "plateaus-of-4", "all-equal"][shape], rel_since(&ts, since), since, missing, got
                    );
                }
            }
        }
    }
    // labelling across rotated files: 3 keys rewritten over and over with changing kinds
    let mut max_files = 0;
    for n in 1..=max_n {
        for pattern in 0..6u64 {
            Oplog::clean_op_log_metadata_files();
            let mut newest: BTreeMap<u64, (u8, u64)> = BTreeMap::new();
            {
                let mut stream = Oplog::get_log_file_append_mode();
                let mut rotated = count_rotated();
                for i in 0..n {
                    // patterns 0-3: three keys rewritten round-robin; 4-5: a few cold keys written
                    // once, then one hot key fills the following files
                    let key = if pattern >= 4 {
                        if i < (pattern as usize - 2) { 200 + i as u64 } else { 100 }
                    } else {
                        100 + (i as u64 * (pattern + 1)) % 3
                    };
                    let kind = if (i as u64 + pattern) % 3 == 2 { ReplicateOpp::Remove } else { ReplicateOpp::Update };
                    let t = 100 + 10 * i as u64;
                    newest.insert(key, (kind.to_u8(), t));
                    Oplog::try_write_op_log(&mut stream, Some(7), key, &kind, t).unwrap();
                    let r = count_rotated();
                    if r != rotated {
                        rotated = r;
                        std::thread::sleep(std::time::Duration::from_millis(12));
                    }
                }
                max_files = max_files.max(rotated);
            }
            logs += 1;
            for since in [1u64, 100 + 10 * (n as u64 / 2), 100 + 10 * (n as u64 - 1)] {
                queries += 1;
                let got = read_operations_since(since);
                for (key, (kind, t)) in newest.iter() {
                    let g = got.values().find(|r| r.key == *key);
                    match g {
                        None if *t >= since => println!("V\trecord-missed\trotation-labels file_limit={}B n={} pattern={} since={}\tkey {} (newest record at {}) not returned", per_file_limit, n, pattern, since, key, t),
                        Some(r) if r.opp.to_u8() != *kind => println!(
                            "V\toperation-mislabelled\trotation-labels file_limit={}B n={} pattern={} since={}\tkey {}: newest record kind {} at {}, query says kind {} (record time {})",
                            per_file_limit, n, pattern, since, key, kind, t, r.opp.to_u8(), r.timestamp
                        ),
                        _ => {}
                    }
                }
            }
        }
    }
    println!("S\t{}\t{}\t{}", logs, queries, max_files);
    let _ = std::fs::remove_dir_all(&ctx.dir);
}

fn rotation(run: &mut Run) {
    let exe = crate::util::self_exe();
    let sizes = ["250", "500", "750", "1250"];
    let handles: Vec<_> = sizes
        .iter()
        .map(|s| {
            let exe = exe.clone();
            let tier = run.tier.clone();
            let s = s.to_string();
            std::thread::spawn(move || std::process::Command::new(exe).args(["C12ROT", &tier]).env("NUN_MAX_OP_LOG_SIZE", &s).output())
        })
        .collect();
    for (h, size) in handles.into_iter().zip(sizes.iter()) {
        let out = h.join().unwrap().expect("spawn rotation worker");
        let text = String::from_utf8_lossy(&out.stdout).to_string();
        if out.status.code() != Some(0) {
            eprintln!("machinery: rotation worker (size {}) failed: {} {}", size, text, String::from_utf8_lossy(&out.stderr));
            std::process::exit(2);
        }
        for line in text.lines() {
            let p: Vec<&str> = line.split('\t').collect();
            match p[0] {
                "V" => viol(run, p[1], p[2].to_string(), p[3].to_string(), json!({"engine":"c12-rotation","NUN_MAX_OP_LOG_SIZE":size,"case":p[2]})),
                "S" => {
                    let l: u64 = p[1].parse().unwrap();
                    let q: u64 = p[2].parse().unwrap();
                    run.cov_add("rotation_logs", l);
                    run.cov_add("rotation_queries", q);
                    let mf: u64 = p.get(3).and_then(|x| x.parse().ok()).unwrap_or(0);
                    let cur = run.coverage.get("rotation_max_rotated_files").and_then(|v| v.as_u64()).unwrap_or(0);
                    run.cov("rotation_max_rotated_files", json!(cur.max(mf)));
                    run.cov_add("states", l);
                    run.cov_add("transitions", q);
                }
                _ => {}
            }
        }
    }
}

pub fn run(run: &mut Run) {
    let quick = run.quick();
    rotation(run);
    raw_logs(run, if quick { 24 } else { 48 }, if quick { 9 } else { 11 });
    raw_kind_logs(run, if quick { 3 } else { 5 });
    end_to_end(run, if quick { 4 } else { 5 });
    run.cov("exhaustive", json!(true));
    run.assume("a query may also return operations older than `since` (harmless for catch-up); only misses and wrong labels are violations");
    run.assume("rotated files are told apart by birth time: the driver spaces rotations 12 ms apart and refuses to judge a run with colliding birth times");
    run.assume("since = 0 is answered from memory (full sync), not from the log: not part of the log query");
    run.assume("values and tokens inside catch-up commands are compared by C05; C12 compares (kind, database, key)");
}
