//! Real TCP front end (nundb::network::tcp_ops::start_tcp_client) on a loopback port.
use nundb::bo::Databases;
use std::io::{BufRead, BufReader, Read, Write};
use std::net::TcpStream;
use std::sync::Arc;

pub struct TcpServer {
    pub port: u16,
}

impl TcpServer {
    pub fn start(dbs: Arc<Databases>) -> TcpServer {
        for _attempt in 0..8 {
            let port = crate::http::free_port();
            let addr = format!("127.0.0.1:{}", port);
            let d = dbs.clone();
            let h = std::thread::Builder::new().name(format!("tcp-{}", port)).spawn(move || nundb::network::tcp_ops::start_tcp_client(d, &addr)).unwrap();
            for _ in 0..2000 {
                if h.is_finished() {
                    break;
                }
                if let Ok(s) = TcpStream::connect(("127.0.0.1", port)) {
                    drop(s);
                    if !h.is_finished() {
                        return TcpServer { port };
                    }
                }
                std::thread::sleep(std::time::Duration::from_millis(2));
            }
        }
        eprintln!("machinery: the tcp server could not be started on any port");
        std::process::exit(2);
    }

    pub fn connect(&self) -> TcpConn {
        let s = TcpStream::connect(("127.0.0.1", self.port)).unwrap();
        s.set_read_timeout(Some(std::time::Duration::from_secs(10))).unwrap();
        let mut c = TcpConn { reader: BufReader::new(s.try_clone().unwrap()), stream: s };
        // greeting
        let _ = c.read_line();
        c
    }
}

pub struct TcpConn {
    stream: TcpStream,
    reader: BufReader<TcpStream>,
}

impl TcpConn {
    pub fn read_line(&mut self) -> Option<String> {
        let mut l = String::new();
        match self.reader.read_line(&mut l) {
            Ok(0) => None,
            Ok(_) => Some(l),
            Err(_) => None,
        }
    }
    pub fn raw(&mut self) -> &mut TcpStream {
        &mut self.stream
    }
    pub fn read_line_timeout(&mut self, ms: u64) -> Option<String> {
        let _ = self.stream.set_read_timeout(Some(std::time::Duration::from_millis(ms)));
        let r = self.read_line();
        let _ = self.stream.set_read_timeout(Some(std::time::Duration::from_secs(10)));
        r
    }
    /// send one command and read lines until the terminating `ok` / `error ...` line
    pub fn cmd(&mut self, line: &str) -> Vec<String> {
        self.stream.write_all(format!("{}\n", line).as_bytes()).unwrap();
        let mut out = vec![];
        for _ in 0..50 {
            match self.read_line() {
                Some(l) => {
                    let done = l.starts_with("ok") || l.starts_with("error ");
                    if !l.trim().is_empty() {
                        out.push(l);
                    }
                    if done {
                        break;
                    }
                }
                None => break,
            }
        }
        out
    }
    /// send bytes without waiting for anything
    pub fn send_raw(&mut self, bytes: &[u8]) -> bool {
        self.stream.write_all(bytes).is_ok()
    }
    /// abort the connection: SO_LINGER 0 makes close() send a reset instead of an orderly FIN
    pub fn reset(self) {
        use std::os::unix::io::AsRawFd;
        let fd = self.stream.as_raw_fd();
        let l = libc::linger { l_onoff: 1, l_linger: 0 };
        unsafe {
            libc::setsockopt(fd, libc::SOL_SOCKET, libc::SO_LINGER, &l as *const _ as *const libc::c_void, std::mem::size_of::<libc::linger>() as libc::socklen_t);
        }
        drop(self);
    }
    /// close our side and wait until the server has run its end-of-connection path (it drops the
    /// stream afterwards, which we see as EOF)
    pub fn close_and_wait(mut self) -> bool {
        let _ = self.stream.shutdown(std::net::Shutdown::Write);
        let mut buf = [0u8; 256];
        for _ in 0..2000 {
            match self.reader.get_mut().read(&mut buf) {
                Ok(0) => return true,
                Ok(_) => continue,
                Err(_) => return false,
            }
        }
        false
    }
}
