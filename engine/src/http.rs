//! Real HTTP front end (nundb::network::http_ops::start_http_client) on a loopback port, driven
//! with plain HTTP/1.1 requests.
use nundb::bo::Databases;
use std::io::{Read, Write};
use std::net::{TcpListener, TcpStream};
use std::sync::Arc;

pub fn free_port() -> u16 {
    let l = TcpListener::bind("127.0.0.1:0").unwrap();
    l.local_addr().unwrap().port()
}

pub struct HttpServer {
    pub port: u16,
}

impl HttpServer {
    /// the server threads live until the process exits (the server has no shutdown path)
    pub fn start(dbs: Arc<Databases>) -> HttpServer {
        // the port is free when it is picked; if somebody else takes it before the server binds
        // (the server thread then ends at once), pick another one
        for _attempt in 0..8 {
            let port = free_port();
            let addr = Arc::new(format!("127.0.0.1:{}", port));
            let d = dbs.clone();
            let h = std::thread::Builder::new().name(format!("http-{}", port)).spawn(move || nundb::network::http_ops::start_http_client(d, addr)).unwrap();
            for _ in 0..2000 {
                if h.is_finished() {
                    break;
                }
                if TcpStream::connect(("127.0.0.1", port)).is_ok() && !h.is_finished() {
                    return HttpServer { port };
                }
                std::thread::sleep(std::time::Duration::from_millis(2));
            }
        }
        eprintln!("machinery: the http server could not be started on any port");
        std::process::exit(2);
    }

    /// any bytes as a whole request (malformed heads, odd methods, bodies that are not UTF-8);
    /// returns the status line, or an error text when the server sent nothing back
    pub fn raw(&self, request: &[u8]) -> Result<String, String> {
        let mut s = TcpStream::connect(("127.0.0.1", self.port)).map_err(|e| e.to_string())?;
        s.set_read_timeout(Some(std::time::Duration::from_secs(5))).ok();
        s.write_all(request).map_err(|e| e.to_string())?;
        let _ = s.shutdown(std::net::Shutdown::Write);
        let mut buf = vec![];
        let _ = s.read_to_end(&mut buf);
        let text = String::from_utf8_lossy(&buf).to_string();
        Ok(text.lines().next().unwrap_or("").to_string())
    }
    pub fn post_bytes(&self, body: &[u8]) -> Result<String, String> {
        let mut req = format!("POST / HTTP/1.1\r\nHost: x\r\nConnection: close\r\nContent-Length: {}\r\n\r\n", body.len()).into_bytes();
        req.extend_from_slice(body);
        self.raw(&req)
    }
    pub fn post(&self, body: &str) -> Result<String, String> {
        let mut s = TcpStream::connect(("127.0.0.1", self.port)).map_err(|e| e.to_string())?;
        s.set_read_timeout(Some(std::time::Duration::from_secs(20))).ok();
        let req = format!("POST / HTTP/1.1\r\nHost: x\r\nConnection: close\r\nContent-Type: text/plain\r\nContent-Length: {}\r\n\r\n{}", body.len(), body);
        s.write_all(req.as_bytes()).map_err(|e| e.to_string())?;
        let mut buf = vec![];
        s.read_to_end(&mut buf).map_err(|e| e.to_string())?;
        match buf.windows(4).position(|w| w == b"\r\n\r\n") {
            Some(i) => {
                let head = String::from_utf8_lossy(&buf[..i]).to_string();
                let body = &buf[i + 4..];
                if head.to_ascii_lowercase().contains("transfer-encoding: chunked") {
                    Ok(dechunk(body))
                } else {
                    Ok(String::from_utf8_lossy(body).to_string())
                }
            }
            None => Err(format!("malformed http response: {:?}", String::from_utf8_lossy(&buf))),
        }
    }
}

fn dechunk(b: &[u8]) -> String {
    // chunk sizes count bytes: work on the bytes, decode at the end
    let mut out: Vec<u8> = vec![];
    let mut rest = b;
    loop {
        let i = match rest.windows(2).position(|w| w == b"\r\n") {
            Some(i) => i,
            None => break,
        };
        let n = usize::from_str_radix(String::from_utf8_lossy(&rest[..i]).trim(), 16).unwrap_or(0);
        if n == 0 {
            break;
        }
        let start = i + 2;
        if start + n > rest.len() {
            out.extend_from_slice(&rest[start..]);
            break;
        }
        out.extend_from_slice(&rest[start..start + n]);
        rest = &rest[(start + n + 2).min(rest.len())..];
    }
    String::from_utf8_lossy(&out).to_string()
}
