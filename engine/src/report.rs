//! Evidence files, violations, known findings, exit codes.
use serde_json::{json, Map, Value as J};
use std::collections::BTreeMap;
use std::time::Instant;

#[derive(Clone, Debug)]
pub struct Violation {
    pub clause: String,
    /// canonical, renamed shape of the (minimal) counterexample; known findings match on it
    pub shape: String,
    pub detail: String,
    pub replay: J,
}

pub struct Run {
    pub property: String,
    pub tier: String,
    pub seed: u64,
    pub level: String,
    pub start: Instant,
    pub coverage: Map<String, J>,
    pub assumptions: Vec<String>,
    pub violations: Vec<Violation>,
    pub notes: Vec<String>,
}

#[derive(Clone, Debug)]
pub struct Known {
    pub id: String,
    pub property: String,
    pub status: String,
    pub clause: String,
    pub shape_contains: Vec<String>,
    pub what: String,
}

pub fn load_known() -> Vec<Known> {
    let path = "/verif/known_findings.jsonl";
    let mut out = vec![];
    if let Ok(s) = std::fs::read_to_string(path) {
        for line in s.lines() {
            let line = line.trim();
            if line.is_empty() || line.starts_with('#') {
                continue;
            }
            let j: J = match serde_json::from_str(line) {
                Ok(j) => j,
                Err(e) => {
                    eprintln!("machinery: bad known_findings line: {} ({})", line, e);
                    std::process::exit(2);
                }
            };
            out.push(Known {
                id: j["id"].as_str().unwrap_or("").to_string(),
                property: j["property"].as_str().unwrap_or("").to_string(),
                status: j["status"].as_str().unwrap_or("open").to_string(),
                clause: j["clause"].as_str().unwrap_or("").to_string(),
                shape_contains: j["shape_contains"]
                    .as_array()
                    .map(|a| a.iter().filter_map(|x| x.as_str().map(|s| s.to_string())).collect())
                    .unwrap_or_default(),
                what: j["what"].as_str().unwrap_or("").to_string(),
            });
        }
    }
    out
}

impl Run {
    pub fn new(property: &str, tier: &str, level: &str) -> Run {
        let seed = std::env::var("VERIF_SEED")
            .ok()
            .and_then(|s| s.parse::<u64>().ok())
            .unwrap_or(0);
        Run {
            property: property.to_string(),
            tier: tier.to_string(),
            seed,
            level: level.to_string(),
            start: Instant::now(),
            coverage: Map::new(),
            assumptions: vec![],
            violations: vec![],
            notes: vec![],
        }
    }
    pub fn quick(&self) -> bool {
        self.tier == "quick"
    }
    pub fn cov(&mut self, k: &str, v: J) {
        self.coverage.insert(k.to_string(), v);
    }
    pub fn cov_add(&mut self, k: &str, n: u64) {
        let cur = self.coverage.get(k).and_then(|v| v.as_u64()).unwrap_or(0);
        self.coverage.insert(k.to_string(), json!(cur + n));
    }
    pub fn sample(&mut self, s: J) {
        let e = self
            .coverage
            .entry("samples".to_string())
            .or_insert_with(|| json!([]));
        if let Some(a) = e.as_array_mut() {
            if a.len() < 12 {
                a.push(s);
            }
        }
    }
    pub fn assume(&mut self, s: &str) {
        self.assumptions.push(s.to_string());
    }
    pub fn violate(&mut self, v: Violation) {
        self.violations.push(v);
    }

    /// Writes evidence, prints KNOWN-FINDING / VIOLATION lines, returns the exit code.
    pub fn finish(mut self) -> i32 {
        let known = load_known();
        // group by (clause, shape), keep the first (searches are shortest-first)
        let mut groups: BTreeMap<(String, String), Violation> = BTreeMap::new();
        let mut counts: BTreeMap<(String, String), usize> = BTreeMap::new();
        for v in self.violations.drain(..) {
            let k = (v.clause.clone(), v.shape.clone());
            *counts.entry(k.clone()).or_insert(0) += 1;
            groups.entry(k).or_insert(v);
        }
        let mut unknown: Vec<Violation> = vec![];
        let mut known_hits: BTreeMap<String, (Known, usize, String)> = BTreeMap::new();
        for (k, v) in groups.iter() {
            let hit = known.iter().find(|kf| {
                kf.property == self.property
                    && kf.status == "open"
                    && kf.clause == v.clause
                    && kf.shape_contains.iter().all(|s| v.shape.contains(s.as_str()))
            });
            match hit {
                Some(kf) => {
                    if std::env::var("NUNMC_SHAPES").is_ok() {
                        println!("  SHAPE {} | {} | {} | x{}", kf.id, v.clause, v.shape.chars().take(300).collect::<String>(), counts[k]);
                    }
                    let e = known_hits
                        .entry(kf.id.clone())
                        .or_insert((kf.clone(), 0, v.shape.clone()));
                    e.1 += counts[k];
                }
                None => unknown.push(v.clone()),
            }
        }
        for (_, (kf, n, shape)) in known_hits.iter() {
            println!(
                "KNOWN-FINDING: property={} {} [{}; clause={}; {} occurrence(s); e.g. {}]",
                self.property, kf.what, kf.id, kf.clause, n, shape
            );
        }
        let mut code = 0;
        let dir = format!("/verif/replays/{}", self.property);
        let mut shown = 0;
        // shortest shapes first
        unknown.sort_by_key(|v| (v.shape.len(), v.shape.clone()));
        for v in unknown.iter() {
            code = 1;
            if shown >= 25 {
                continue;
            }
            shown += 1;
            let _ = std::fs::create_dir_all(&dir);
            let h = crate::util::hash128(&format!("{}|{}", v.clause, v.shape));
            let path = format!("{}/{:016x}.json", dir, (h >> 64) as u64);
            let body = json!({
                "property": self.property,
                "clause": v.clause,
                "shape": v.shape,
                "detail": v.detail,
                "replay": v.replay,
            });
            let _ = std::fs::write(&path, serde_json::to_string_pretty(&body).unwrap());
            println!("VIOLATION property={} replay={}", self.property, path);
            println!("  clause={} shape={}", v.clause, v.shape);
            println!("  detail={}", v.detail);
        }
        if unknown.len() > shown {
            println!("  ... and {} more distinct violations", unknown.len() - shown);
        }
        if !unknown.is_empty() {
            let mut per: BTreeMap<String, (usize, String)> = BTreeMap::new();
            for v in unknown.iter() {
                let e = per.entry(v.clause.clone()).or_insert((0, v.shape.clone()));
                e.0 += 1;
            }
            for (c, (n, s)) in per.iter() {
                let s: String = s.chars().take(160).collect();
                println!("  unlisted clause {}: {} distinct shape(s), shortest: {}", c, n, s);
            }
            if std::env::var("NUNMC_ALL").is_ok() {
                for v in unknown.iter() {
                    println!("  ALL {} | {} | {}", v.clause, v.shape.chars().take(300).collect::<String>(), v.detail.chars().take(600).collect::<String>());
                }
            }
        }
        let wall = self.start.elapsed().as_secs_f64();
        self.coverage
            .insert("known_findings_hit".into(), json!(known_hits.keys().collect::<Vec<_>>()));
        self.coverage
            .insert("distinct_unlisted_violations".into(), json!(unknown.len()));
        if !self.notes.is_empty() {
            self.coverage.insert("notes".into(), json!(self.notes));
        }
        if !self.coverage.contains_key("samples") {
            self.coverage.insert("samples".into(), json!(["(none recorded)"]));
        }
        let ev = json!({
            "property_id": self.property,
            "tier": self.tier,
            "seed": self.seed,
            "level": self.level,
            "coverage": J::Object(self.coverage.clone()),
            "assumptions": self.assumptions,
            "wall_s": wall,
            "violations": unknown.len(),
        });
        // NUNMC_EVIDENCE_DIR: only for trial runs against seeded changes (tools/try_seed_scratch.sh)
        let dir = std::env::var("NUNMC_EVIDENCE_DIR").unwrap_or_else(|_| "/verif/evidence".to_string());
        let _ = std::fs::create_dir_all(&dir);
        let path = format!("{}/{}.json", dir, self.property);
        if let Err(e) = std::fs::write(&path, serde_json::to_string_pretty(&ev).unwrap()) {
            eprintln!("machinery: cannot write evidence {}: {}", path, e);
            return 2;
        }
        println!(
            "{} {}: {} in {:.1}s; coverage: {}",
            self.property,
            self.tier,
            if code == 0 { "held" } else { "VIOLATED" },
            wall,
            summarize(&self.coverage)
        );
        code
    }
}

fn summarize(c: &Map<String, J>) -> String {
    let mut parts = vec![];
    for (k, v) in c.iter() {
        if v.is_number() || v.is_boolean() {
            parts.push(format!("{}={}", k, v));
        }
    }
    parts.join(" ")
}
