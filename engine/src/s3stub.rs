//! In-process S3-compatible endpoint (environment for the S3 storage strategies): PutObject,
//! GetObject, ListObjectsV2 with path-style URLs, plus injectable faults on the n-th operation.
use std::collections::BTreeMap;
use std::sync::atomic::{AtomicUsize, Ordering};
use std::sync::{Arc, Mutex};

pub struct Stub {
    pub port: u16,
    pub objects: Mutex<BTreeMap<String, Vec<u8>>>,
    /// distinct operations seen (an SDK-internal retry carries the same invocation id)
    pub put_ops: AtomicUsize,
    pub get_ops: AtomicUsize,
    seen: Mutex<Vec<String>>,
    /// 1-based index of the PUT / GET operation that fails (0 = none); always = every attempt of
    /// every later operation on the same key fails too
    pub fail_put: AtomicUsize,
    pub fail_put_always: std::sync::atomic::AtomicBool,
    pub fail_get: AtomicUsize,
    pub fail_status: AtomicUsize,
    failing: Mutex<Vec<String>>,
    failing_keys: Mutex<Vec<String>>,
    pub failed_requests: AtomicUsize,
    pub log: Mutex<Vec<String>>,
}

fn pct(s: &str) -> String {
    let b = s.as_bytes();
    let mut out = vec![];
    let mut i = 0;
    while i < b.len() {
        if b[i] == b'%' && i + 2 < b.len() {
            if let Ok(x) = u8::from_str_radix(&s[i + 1..i + 3], 16) {
                out.push(x);
                i += 3;
                continue;
            }
        }
        out.push(if b[i] == b'+' { b' ' } else { b[i] });
        i += 1;
    }
    String::from_utf8_lossy(&out).to_string()
}

fn dechunk(body: &[u8]) -> Vec<u8> {
    let mut out = vec![];
    let mut pos = 0;
    while pos < body.len() {
        let end = match body[pos..].windows(2).position(|w| w == b"\r\n") {
            Some(p) => pos + p,
            None => break,
        };
        let line = String::from_utf8_lossy(&body[pos..end]).to_string();
        let len = usize::from_str_radix(line.split(';').next().unwrap_or("0").trim(), 16).unwrap_or(0);
        pos = end + 2;
        if len == 0 || pos + len > body.len() {
            break;
        }
        out.extend_from_slice(&body[pos..pos + len]);
        pos += len + 2;
    }
    out
}

fn hdr(r: &tiny_http::Request, name: &str) -> Option<String> {
    r.headers().iter().find(|h| h.field.as_str().as_str().eq_ignore_ascii_case(name)).map(|h| h.value.as_str().to_string())
}

fn xml(status: u16, body: String) -> tiny_http::Response<std::io::Cursor<Vec<u8>>> {
    tiny_http::Response::from_data(body.into_bytes()).with_status_code(status).with_header(tiny_http::Header::from_bytes(&b"Content-Type"[..], &b"application/xml"[..]).unwrap())
}

impl Stub {
    pub fn start(bucket: &'static str) -> Arc<Stub> {
        let server = tiny_http::Server::http("127.0.0.1:0").unwrap();
        let port = server.server_addr().to_ip().unwrap().port();
        let stub = Arc::new(Stub {
            port,
            objects: Mutex::new(BTreeMap::new()),
            put_ops: AtomicUsize::new(0),
            get_ops: AtomicUsize::new(0),
            seen: Mutex::new(vec![]),
            fail_put: AtomicUsize::new(0),
            fail_put_always: std::sync::atomic::AtomicBool::new(false),
            fail_get: AtomicUsize::new(0),
            fail_status: AtomicUsize::new(403),
            failing: Mutex::new(vec![]),
            failing_keys: Mutex::new(vec![]),
            failed_requests: AtomicUsize::new(0),
            log: Mutex::new(vec![]),
        });
        let server = Arc::new(server);
        for _ in 0..4 {
            let s = stub.clone();
            let srv = server.clone();
            std::thread::spawn(move || loop {
                match srv.recv() {
                    Ok(rq) => s.handle(rq, bucket),
                    Err(_) => break,
                }
            });
        }
        stub
    }

    pub fn reset(&self) {
        self.objects.lock().unwrap().clear();
        self.put_ops.store(0, Ordering::SeqCst);
        self.get_ops.store(0, Ordering::SeqCst);
        self.seen.lock().unwrap().clear();
        self.fail_put.store(0, Ordering::SeqCst);
        self.fail_put_always.store(false, Ordering::SeqCst);
        self.fail_get.store(0, Ordering::SeqCst);
        self.failing.lock().unwrap().clear();
        self.failing_keys.lock().unwrap().clear();
        self.failed_requests.store(0, Ordering::SeqCst);
        self.log.lock().unwrap().clear();
    }

    fn fail(&self, rq: tiny_http::Request) {
        self.failed_requests.fetch_add(1, Ordering::SeqCst);
        let st = self.fail_status.load(Ordering::SeqCst) as u16;
        let code = if st == 403 { "AccessDenied" } else { "InternalError" };
        let _ = rq.respond(xml(st, format!("<?xml version=\"1.0\" encoding=\"UTF-8\"?><Error><Code>{}</Code><Message>injected fault</Message></Error>", code)));
    }

    fn handle(&self, mut rq: tiny_http::Request, bucket: &str) {
        let url = rq.url().to_string();
        let (path, query) = match url.split_once('?') {
            Some((p, q)) => (p.to_string(), q.to_string()),
            None => (url.clone(), String::new()),
        };
        let path = pct(&path);
        let key = path.strip_prefix(&format!("/{}", bucket)).unwrap_or(&path).trim_start_matches('/').to_string();
        let params: BTreeMap<String, String> = query.split('&').filter(|x| !x.is_empty()).map(|kv| kv.split_once('=').map(|(k, v)| (pct(k), pct(v))).unwrap_or((pct(kv), String::new()))).collect();
        let method = rq.method().to_string().to_uppercase();
        let inv = hdr(&rq, "amz-sdk-invocation-id").unwrap_or_else(|| format!("noinv-{}-{}", method, url));
        let is_new = {
            let mut s = self.seen.lock().unwrap();
            if s.contains(&inv) {
                false
            } else {
                s.push(inv.clone());
                true
            }
        };
        match method.as_str() {
            "PUT" => {
                let mut raw = vec![];
                let _ = rq.as_reader().read_to_end(&mut raw);
                if is_new {
                    let n = self.put_ops.fetch_add(1, Ordering::SeqCst) + 1;
                    if n == self.fail_put.load(Ordering::SeqCst) {
                        self.failing.lock().unwrap().push(inv.clone());
                        if self.fail_put_always.load(Ordering::SeqCst) {
                            self.failing_keys.lock().unwrap().push(key.clone());
                        }
                    }
                }
                if self.failing.lock().unwrap().contains(&inv) || self.failing_keys.lock().unwrap().contains(&key) {
                    self.log.lock().unwrap().push(format!("PUT {} FAILED", key));
                    return self.fail(rq);
                }
                let chunked = hdr(&rq, "content-encoding").map(|v| v.contains("aws-chunked")).unwrap_or(false) || hdr(&rq, "x-amz-content-sha256").map(|v| v.starts_with("STREAMING")).unwrap_or(false);
                let body = if chunked { dechunk(&raw) } else { raw };
                self.log.lock().unwrap().push(format!("PUT {} {}B", key, body.len()));
                self.objects.lock().unwrap().insert(key, body);
                let _ = rq.respond(tiny_http::Response::from_data(Vec::<u8>::new()).with_header(tiny_http::Header::from_bytes(&b"ETag"[..], &b"\"x\""[..]).unwrap()));
            }
            "GET" if params.contains_key("list-type") => {
                let prefix = params.get("prefix").cloned().unwrap_or_default();
                let objs = self.objects.lock().unwrap();
                let mut c = String::new();
                let mut n = 0;
                for (k, v) in objs.iter().filter(|(k, _)| k.starts_with(&prefix)) {
                    n += 1;
                    c.push_str(&format!("<Contents><Key>{}</Key><LastModified>2024-01-01T00:00:00.000Z</LastModified><ETag>&quot;x&quot;</ETag><Size>{}</Size><StorageClass>STANDARD</StorageClass></Contents>", k, v.len()));
                }
                let body = format!("<?xml version=\"1.0\" encoding=\"UTF-8\"?><ListBucketResult xmlns=\"http://s3.amazonaws.com/doc/2006-03-01/\"><Name>{}</Name><Prefix>{}</Prefix><KeyCount>{}</KeyCount><MaxKeys>1000</MaxKeys><IsTruncated>false</IsTruncated>{}</ListBucketResult>", bucket, prefix, n, c);
                let _ = rq.respond(xml(200, body));
            }
            "GET" => {
                if is_new {
                    let n = self.get_ops.fetch_add(1, Ordering::SeqCst) + 1;
                    if n == self.fail_get.load(Ordering::SeqCst) {
                        self.failing.lock().unwrap().push(inv.clone());
                    }
                }
                if self.failing.lock().unwrap().contains(&inv) {
                    self.log.lock().unwrap().push(format!("GET {} FAILED", key));
                    return self.fail(rq);
                }
                let o = self.objects.lock().unwrap().get(&key).cloned();
                match o {
                    Some(b) => {
                        let _ = rq.respond(tiny_http::Response::from_data(b).with_header(tiny_http::Header::from_bytes(&b"ETag"[..], &b"\"x\""[..]).unwrap()));
                    }
                    None => {
                        let _ = rq.respond(xml(404, format!("<?xml version=\"1.0\" encoding=\"UTF-8\"?><Error><Code>NoSuchKey</Code><Message>no such key</Message><Key>{}</Key></Error>", key)));
                    }
                }
            }
            _ => {
                let _ = rq.respond(xml(405, "<Error><Code>MethodNotAllowed</Code></Error>".to_string()));
            }
        }
    }
}
