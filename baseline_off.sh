#!/bin/bash
# Runs the repository's own test suite with the verification guard OFF (no --cfg nundb_verif)
# and checks every test of BASELINE.json's stable_pass list still passes.
set -u
cd /repo || exit 2
export CARGO_NET_OFFLINE=true
# the suite binds fixed ports: never run two suites at once on this machine
exec 9>/tmp/nun-db-baseline.lock
flock 9
# the suite (and every test server it spawns) must not inherit the lock descriptor: a server that
# outlives its test would otherwise keep the lock for good (9>&- on the cargo command below)
unset RUSTFLAGS
rm -f target/nextest/pb/junit.xml
cargo nextest run --workspace --no-fail-fast --tool-config-file pb:/verif/tools/nextest.toml --profile pb --test-threads 8 --offline >/tmp/baseline_off.log 2>&1 9>&-
python3 - <<'PY'
import json, sys, xml.etree.ElementTree as ET
base = json.load(open('/root/.vp/BASELINE.json'))
want = set(base['stable_pass'])
try:
    root = ET.parse('/repo/target/nextest/pb/junit.xml').getroot()
except Exception as e:
    print('no junit output:', e); sys.exit(2)
passed, failed = set(), set()
for tc in root.iter('testcase'):
    tid = (tc.get('classname') or '') + '::' + (tc.get('name') or '')
    if tc.find('failure') is not None or tc.find('error') is not None or tc.find('flakyFailure') is not None or tc.find('rerunFailure') is not None:
        failed.add(tid)
    elif tc.find('skipped') is None:
        passed.add(tid)
passed -= failed
missing = sorted(want - passed)
print(f'baseline stable_pass={len(want)} passed_now={len(want & passed)} missing={len(missing)}')
for m in missing: print('  NOT PASSING:', m)
sys.exit(1 if missing else 0)
PY
