#!/bin/bash
# usage: try_seed.sh <patch.diff> <tier> <PROPERTY>...   -- applies a seeded change to /repo, runs the checks, always reverts
set -u
patch="$1"; tier="$2"; shift 2
cd /repo || exit 2
if ! git diff --quiet; then echo "/repo has uncommitted changes; refusing"; exit 2; fi
if ! git apply --3way "$patch" 2>/tmp/try_seed_apply.log && ! git apply "$patch" 2>>/tmp/try_seed_apply.log; then echo "patch does not apply:"; cat /tmp/try_seed_apply.log; git checkout -- . ; exit 3; fi
git reset -q 2>/dev/null
for p in "$@"; do
  echo "=== $p $tier with seed $(basename $(dirname $patch))"
  ( cd /verif && ./check "$p" "$tier" 2>&1 | grep -aE "VIOLATION|held|VIOLATED|machinery|unlisted clause" | cut -c1-260 | awk '/^VIOLATION/{n++; if(n<=2)print; next} {print} END{print "  (" n+0 " VIOLATION lines)"}' | tail -12 )
done
git -C /repo checkout -- . && git -C /repo status --short | head -3
