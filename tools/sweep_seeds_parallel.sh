#!/bin/bash
# usage: sweep_seeds_parallel.sh [tier] [workers]   -- every stored seed against the check of its property, several scratch builds side by side
# writes /verif/seeded/SWEEP.txt : <seed> <property> <tier> caught|MISSED <number of VIOLATION lines>
tier="${1:-quick}"; workers="${2:-4}"
out=/verif/seeded/SWEEP.txt
mkdir -p /tmp/sw; rm -f /tmp/sw/result.*
ls -d /verif/seeded/[A-Z]*/ | awk -v w=$workers '{print NR % w, $0}' > /tmp/sw/plan.txt
for i in $(seq 0 $((workers-1))); do
  (
    grep "^$i " /tmp/sw/plan.txt | cut -d' ' -f2 | while read d; do
      name=$(basename $d)
      prop=$(python3 -c "import json;print(json.load(open('$d/meta.json'))['property'])")
      res=$(SEEDTRY_DIR=/tmp/sw/$i/seedtry /verif/tools/try_seed_scratch.sh $d/patch.diff $tier $prop 2>&1 | tail -1)
      n=$(echo "$res" | grep -o '[0-9]* VIOLATION' | grep -o '[0-9]*')
      if [ -n "$n" ] && [ "$n" -gt 0 ]; then v=caught; else v=MISSED; fi
      echo "$name $prop $tier $v ${n:-?}" >> /tmp/sw/result.$i
    done
  ) &
done
wait
cat /tmp/sw/result.* | sort > $out
grep -c caught $out; grep MISSED $out
rm -rf /tmp/sw
