#!/usr/bin/env python3
"""Regenerates /verif/MANIFEST.json from the table below (single source of truth for the interface)."""
import json, subprocess

SEQ = "bounded-exhaustive breadth-first exploration of command histories on the real process_request path, canonical-state merging, differential oracle against a plain-map reference model"
CHECKS = {
 "C01": dict(level="model_checking", technique="explicit-state BFS over command histories (SEQ) on the real code vs reference model",
   text="Every history up to the depth bound over a 35-40 letter alphabet (set/set-safe/get/get-safe/remove/increment/keys/snapshot on 3 keys incl. a $$ key) is executed on the real node; every reply and every reached state is compared with a plain map. "+SEQ,
   note="Trusts: the harness start-up sequence (world::Node::start mirrors main.rs::start_db), the logical clock hook, set-safe acceptance taken from the implementation (C02 judges it). Values without newline/';'.", design="7/C01"),
 "C02": dict(level="model_checking", technique="explicit-state BFS over version arguments (SEQ) + exhaustive preemption-bounded interleaving exploration (ILV)",
   text="Sequential: all histories up to the bound over set / set-safe with versions {-1,cur-1,cur,cur+1,1000} / increment / remove / snapshot on two keys, oracle = acceptance rule of the statement + strictly growing reported version.",
   note="Version -1 is the unversioned sentinel; tombstoned keys: either outcome accepted (statement ambiguous).", design="7/C02"),
 "C06": dict(level="model_checking", technique="explicit-state BFS over write/snapshot/restart histories (SEQ) with a restart-on-copy oracle in every snapshot state",
   text="All histories up to the bound over set (values of 0,1,2 and 40 bytes incl. multi-byte UTF-8) / set-safe / remove / increment / snapshot false|true with every write order of up to 3 dirty keys / restart; after every snapshot the directory is copied and the real start-up + load_all_dbs must return exactly the reference snapshot state (live keys, values, versions, id, strategy) of every snapshotted database incl. an untouched arbiter database.",
   note="Snapshots run without concurrent writers. Directory digest is part of the state key, so histories with equal memory but different files are not merged.", design="7/C06"),
 "C08": dict(level="model_checking", technique="two-world noninterference, deviation-bounded explicit-state exploration (SEQ) over every parser command word",
   text="Every command word of Request::command_list() x key shapes (incl. rp-wrapped), deduplicated by the real parser, is executed from every state reachable by session/subscription/plain-data prefixes, in two worlds that differ only in administrator-stored $$ contents; replies+notifications must be identical, $$ keys unchanged, $$token present; four non-admin session kinds + admin.",
   note="Attacker alphabet excludes the world-specific secret values themselves.", design="7/C08"),
 "C09": dict(level="model_checking", technique="explicit-state exploration (SEQ) of the credential x permission-list x command matrix against a reference permission model",
   text="Prefixes over credential letters (wrong password, valid/invalid db and user tokens, other db) and 49 administrator permission lists ({r,w,i,x} subsets x prefix/suffix/contains patterns, multi-entry, 'all'); in every reached state every command line of the generated alphabet is executed and judged by a reference policy: unauthorized => full node state unchanged and no data returned; granted => not refused; failed use-db leaves the selection.",
   note="`election <x>` (active form) queues a broadcast only; queue traffic is not counted as state. arbiter registration judged as needing a selection only.", design="7/C09"),
}

def main():
    hooks_commits = ["7115568"]
    checks = []
    for pid in sorted(CHECKS):
        c = CHECKS[pid]
        checks.append({
            "property_id": pid,
            "quick_cmd": f"./check {pid} quick",
            "thorough_cmd": f"./check {pid} thorough",
            "evidence_file": f"/verif/evidence/{pid}.json",
            "replay_cmd_template": "./check replay {path}",
            "engine": "nunmc",
            "level_claimed": {"category": c["level"], "text": c["text"], "design_ref": "DESIGN.md section " + c["design"]},
            "level_note": c["note"],
            "technique": c["technique"],
        })
    allp = [json.loads(l)["id"] for l in open("/verif/properties.jsonl")]
    na = [{"property_id": p, "reason": "check not built yet (work in progress; planned engine in DESIGN.md section 2.1)"} for p in allp if p not in CHECKS]
    m = {
        "version": 1,
        "setup_cmd": "cd /verif/engine && CARGO_NET_OFFLINE=true cargo build --offline",
        "hooks": {
            "guard": "--cfg nundb_verif",
            "enable": "engine/.cargo/config.toml sets rustflags = [\"--cfg\",\"nundb_verif\"] for the harness crate, which depends on /repo by path; every ./check run rebuilds /repo's working tree with the hooks on",
            "baseline_off_cmd": "/verif/baseline_off.sh",
            "source_commits": hooks_commits,
            "add_only": True,
        },
        "engines": [{"name": "nunmc", "path": "engine", "serves_properties": sorted(CHECKS),
                     "kind_free_text": "one Rust binary linking the real nundb library (hooks on). Engines: SEQ (history BFS), ILV (controlled-scheduler interleavings), NET (in-process cluster state graph), CRASH (syscall-log prefixes), FAULT (S3 stub faults)"}],
        "checks": checks,
        "not_applicable": na,
        "notes": "exit codes: 0 held / 1 violation / 2 machinery. known_findings.jsonl lists recorded findings and fixed defects.",
    }
    json.dump(m, open("/verif/MANIFEST.json", "w"), indent=1)
    print("checks:", len(checks), "not_applicable:", len(na))

main()
