#!/usr/bin/env python3
"""Regenerates /verif/MANIFEST.json from the table below (single source of truth for the interface)."""
import json, subprocess

SEQ = "bounded-exhaustive breadth-first exploration of command histories on the real process_request path, canonical-state merging, differential oracle against a plain-map reference model"
CHECKS = {
 "C01": dict(level="model_checking", technique="explicit-state BFS over command histories (SEQ) on the real code vs reference model",
   text="Every history up to the depth bound over a 35-40 letter alphabet (set/set-safe/get/get-safe/remove/increment/keys/snapshot on 3 keys incl. a $$ key) is executed on the real node; every reply and every reached state is compared with a plain map. "+SEQ,
   note="Trusts: the harness start-up sequence (world::Node::start mirrors main.rs::start_db), the logical clock hook, set-safe acceptance taken from the implementation (C02 judges it). Values without newline/';'.", design="7/C01"),
 "C02": dict(level="model_checking", technique="explicit-state BFS over version arguments (SEQ) + exhaustive preemption-bounded interleaving exploration of real client threads under a controlled scheduler (ILV)",
   text="Sequential: all histories up to the bound over set / set-safe with versions {-1,cur-1,cur,cur+1,1000} / increment / remove / snapshot on two keys, oracle = acceptance rule of the statement + strictly growing reported version. Concurrent: every pair of single commands from {set, set-safe base, increment, get-safe, remove} (2 clients), 2x2 and 3x1 programs, all schedules within the preemption bound; oracle = brute-force linearizability against the implementation run sequentially in every merge order + at most one success per base version + no lost increment.",
   note="Version -1 is the unversioned sentinel; tombstoned keys: either outcome accepted (statement ambiguous).", design="7/C02"),
 "C06": dict(level="model_checking", technique="explicit-state BFS over write/snapshot/restart histories (SEQ) with a restart-on-copy oracle in every snapshot state",
   text="All histories up to the bound over set (values of 0,1,2 and 40 bytes incl. multi-byte UTF-8) / set-safe / remove / increment / snapshot false|true with every write order of up to 3 dirty keys / restart; after every snapshot the directory is copied and the real start-up + load_all_dbs must return exactly the reference snapshot state (live keys, values, versions, id, strategy) of every snapshotted database incl. an untouched arbiter database.",
   note="Snapshots run without concurrent writers. Directory digest is part of the state key, so histories with equal memory but different files are not merged.", design="7/C06"),
 "C08": dict(level="model_checking", technique="two-world noninterference, deviation-bounded explicit-state exploration (SEQ) over every parser command word",
   text="Every command word of Request::command_list() x key shapes (incl. rp-wrapped), deduplicated by the real parser, is executed from every state reachable by session/subscription/plain-data prefixes, in two worlds that differ only in administrator-stored $$ contents; replies+notifications must be identical, $$ keys unchanged, $$token present; four non-admin session kinds + admin.",
   note="Attacker alphabet excludes the world-specific secret values themselves.", design="7/C08"),
 "C09": dict(level="model_checking", technique="explicit-state exploration (SEQ) of the credential x permission-list x command matrix against a reference permission model",
   text="Prefixes over credential letters (wrong password, valid/invalid db and user tokens, other db) and 49 administrator permission lists ({r,w,i,x} subsets x prefix/suffix/contains patterns, multi-entry, 'all'); in every reached state every command line of the generated alphabet is executed and judged by a reference policy: unauthorized => full node state unchanged and no data returned; granted => not refused; failed use-db leaves the selection.",
   note="`election <x>` (active form) queues a broadcast only; queue traffic is not counted as state. arbiter registration judged as needing a selection only.", design="7/C09"),
 "C10": dict(level="model_checking", technique="bounded-exhaustive input enumeration (SEQ): every parser command word x boundary-token argument lists, alone and after every state-changing line, with a second-client probe",
   text="Every command word (plus unknown ones) x all argument lists of 0-2 boundary tokens, and 49 well-formed templates with up to two deviating tokens (empty, spaces, non-numeric, i32/u64/u128 boundaries, $$ keys, ';', 5000-byte token, non-ASCII), as unauthenticated, token and admin session; each line alone and after every state-changing first line. Oracle: no handler panic (with source location), no poisoned lock anywhere in the node, the real replication loop and supervisor (polled by hand) still alive, a second client's set/get/remove answered correctly.",
   note="Built with overflow checks (test profile). Link threads created by join are parked by hook H7. Real TCP/HTTP/WS transports are exercised by C17/C20; random byte strings (sampling) are not used.", design="7/C10"),
 "C12": dict(level="model_checking", technique="exhaustive enumeration of log shapes x since values on the real oplog writer/reader; end-to-end histories through the real replication loop; rotation in child processes",
   text="(a) raw logs of 0..24 strictly increasing records and every composition of 2..9 records into runs of equal timestamps x every since in {first-1, each t, t+-1, last+1}: every record at/after since must be returned, last_op_time = newest; (b) every client history of <=4 operations over 2 dbs x 3 keys x {create-db,set,remove,snapshot} through the real replication loop, then the real catch-up query for every since: every (db,key) with a record at/after since, labelled by its newest record; (c) rotation with NUN_MAX_OP_LOG_SIZE in {500,750,1250}: unique keys, round-robin keys with changing kinds, cold+hot keys, before and after declutter.",
   note="Queries may return older operations too (not a violation). Rotated files are told apart by birth time (rotations spaced 12 ms apart; colliding birth times abort the run as machinery error).", design="7/C12"),
 "C15": dict(level="model_checking", technique="explicit-state BFS over register/ack events on the real pending-operation functions vs a set-based reference",
   text="All sequences up to the bound of register(op,node) / ack(op,node) / foreign ack over 2-3 operations x 3 nodes (acks before registration, duplicates, never-targeted names) on the real register_pending_opp, the real `ack` command, get_pending_opp_copy and get_oplog_state; after every event pending set, both counters and the reported pending count must equal the reference (op -> targeted, acked). Plus a no-merge pass over all histories of one operation.",
   note="Each (operation, member) is registered at most once, as the fan-out loop does.", design="7/C15"),
 "C03": dict(level="model_checking", technique="exhaustive preemption-bounded interleaving exploration (ILV) of real subscriber / writer threads under a controlled scheduler",
   text="14-15 scenarios of 2-4 sessions (subscriber under observation, a second subscriber doing watch/unwatch/unwatch-all/disconnect, one or two writers doing set, accepted and refused set-safe, increment, remove, writes to another key) run as real threads; every schedule with at most the stated number of preemptions (scheduling point = every shim RwLock acquisition + the apply->replicate yield). Oracle on the call/return history and the subscriber's message stream: each committed write inside the subscription window notified exactly once (paired changed/changed-version), overlapping writes 0-1 times, refused writes and foreign keys never, a probe write after the run is delivered iff the subscriber never unsubscribed, highest-versioned notification = final value.",
   note="Notification loss through a full 100-slot channel is outside the bound. Own scheduler (not loom/shuttle): see DESIGN 4.2.", design="7/C03"),
 "C17": dict(level="model_checking", technique="explicit-state BFS over connect/use-db/disconnect events (SEQ) + preemption-bounded interleavings of two sessions (ILV)",
   text="All sequences up to the bound of connect / use-db t / use-db u / use-db wrong token / use-db user token / disconnect over 3 sessions and 2 databases; after every event $connections (key and internal counter) of both databases must equal the number of open sessions selecting them, a disconnect never fails, and a watcher of $connections sees each change. ILV: two sessions selecting/leaving concurrently, final key = sessions still selecting.",
   note="In-process sessions run the same unwatch-all + Client::left pair every transport runs at connection end; HTTP's own end-of-request path is covered by C20.", design="7/C17"),
 "C19": dict(level="model_checking", technique="explicit-state BFS over plain/versioned writes on a newer database (SEQ) + preemption-bounded interleavings of two writers with a watcher (ILV)",
   text="All sequences up to the bound of set / set-safe (version below, at, above current) / remove / increment / snapshot on two keys of a newer-strategy database with a watcher: no write refused, the value read back is the one just written, version strictly grows, the watcher gets exactly one notification per stored change. ILV: every pair of single writes (and 2+1 in thorough) from two clients: no refusal, final value was written, version grew, the watcher's highest-versioned notification equals the final value.",
   note="Every write carries a unique value. Replica agreement is decided by the cluster checks. Versions a client can present are >= -1.", design="7/C19"),
 "C20": dict(level="model_checking", technique="bounded-exhaustive enumeration of HTTP bodies on the real tiny_http front end vs a reference model of the single-node semantics",
   text="Every body of 1..4 (quick) / 1..5 (thorough) commands over 18 letters (auth ok/bad, use-db ok/bad/user token, get, get-safe, set, set-safe accepted/stale, remove, increment numeric/non-numeric, keys, create-db allowed/refused, secure key, watch; refusals for missing selection and missing permission arise from the order) is POSTed to the real start_http_client server (8 instances in parallel); bodies of <=2 commands also with trailing ';', blank statements and padding. Oracle: reply split on ';' equals, entry by entry, what the reference says each command alone produces; afterwards the database content equals the model (each command executed once, in order), no watcher of the request remains, $connections is back to 0.",
   note="The harness resets the server's state between bodies. Values contain no ';' or newline. WebSocket frames are not part of this check.", design="7/C20"),
 "C11": dict(level="fault_enumeration", technique="exhaustive crash-point enumeration: the directory before every mutating system call of the snapshot (libc interposition in the harness) is recovered with the real start-up code",
   text="118 scenarios (quick 34): a dataset persisted by a completed snapshot x {no change, new key, updated key, update+new, remove, remove+update, increment+update} x value sizes {3,240,260,600} B around the 250-byte writer buffer x {incremental, reclaiming} x every write order of up to 3 dirty keys. For every prefix of the snapshot's system-call sequence (write/pwrite/rename/unlink/create/truncate/mkdir, each atomic) the directory is restarted with the real start-up + load: no panic, every key of the previously snapshotted database loads as its on-disk-before or being-written (value, version), untouched keys and the neighbour database unchanged, metadata unchanged.",
   note="Crash = process kill (prefix of the syscall sequence); power-loss reordering and torn single syscalls out of scope. 22 known findings (the snapshot is not crash-safe) are listed by clause + snapshot kind + crash position (+ value-size class where the original is safe).", design="7/C11"),
 "C16": dict(level="fault_enumeration", technique="explicit-state BFS over create-db/write/snapshot/shutdown/kill histories (SEQ) with exhaustive crash-point enumeration inside every step (CRASH)",
   text="All histories up to the bound over create-db d0..d2 / first write of a new key / rewrite / snapshot / clean shutdown+restart / kill+restart with the real replication loop (key-id registration, oplog-valid flag, oplog append); inside every step the directory before each mutating system call, and the state after the step, is restarted with the real start-up code: either the log was discarded or every record decodes (through the restarted node's id maps) to the database and key the writer was given; database ids and key ids unique in the live node and after every restart.",
   note="Known findings (listed): records of never-snapshotted databases survive in a valid log; a kill inside a database's first snapshot panics start-up. The driver keeps the writer's intent per op id.", design="7/C16"),
 "C04": dict(level="model_checking", technique="explicit-state exploration (stateless replay + visited set) of an in-process cluster of real nodes: every FIFO-respecting interleaving of supervisor, replication-loop, link-delivery, acknowledgement and client transitions",
   text="A 2-node (quick) / 2- and 3-node (thorough) cluster is brought up through the real join/election path (real supervisor and replication-loop futures polled by hand, real link threads taken over by hook H7, handlers on worker threads); scripted client operations (set, set-safe, remove, increment, create-db, create-user, set-permissions, snapshot; single operations at every node, pairs on the primary and across nodes; none- and newer-strategy databases) are then explored under every delivery order. At every quiescent state each node's databases and per-key (value, version, live/removed) must equal the primary's.",
   note="Link model (handshake lines, FIFO queues, ok/error per command, EOF sequence) reproduces tcp_ops/auth_on_replication; op ids are rank-renamed per node in the state key. Known findings: writes issued on a secondary are applied twice there (version ahead), racing set-safe from two nodes can leave the secondary with its own value.", design="7/C04"),
 "C14": dict(level="model_checking", technique="explicit-state exploration of the in-process cluster with per-link message counters and a step budget",
   text="Every client-visible command (22 well-formed commands; none-, arbiter- and newer-strategy databases) is issued once on every node of a settled 2-node (quick) / 2- and 3-node (thorough) cluster; all delivery orders are explored with a step budget of 120 (about 6x the longest legitimate exchange). In every state: forwards to the primary <= 1, copies <= secondaries, acks <= copies, no request from a secondary to a non-primary; every path must reach silence with every copy acknowledged.",
   note="ok/error transport replies are not counted. Known findings: resolve is replicated as two messages plus a marker forward per secondary (finite).", design="7/C14"),
 "C13": dict(level="model_checking", technique="explicit-state BFS over writes / arbiter connect / disconnect / resolve on a single node (SEQ) + explicit-state exploration of a 2-node cluster with the arbiter on either node (NET)",
   text="Single node: all sequences up to the bound over set / stale set-safe / fresh set-safe on two keys, arbiter connect, arbiter disconnect, resolve of the oldest or of the newest outstanding notice (echoing its op id and version): a conflicting write is reported, never applied, recorded under $conflicts_<key>_<id> once an arbiter has registered, delivered exactly once to the connected arbiter, later writes queue; a new arbiter gets exactly the unresolved notices; after the last resolution the key holds it and is writable, nothing pending; a key never leaves conflict state early. Cluster: arbiter on the primary or on the secondary x conflict on the primary or on the secondary, all delivery orders: every recorded conflict reaches the arbiter, and after it is answered all replicas agree, nothing is pending, the key is writable.",
   note="Known findings: arbiter registration is node-local (conflicts on another node are answered 'no arbiter').", design="7/C13"),
 "C05": dict(level="model_checking", technique="bounded-exhaustive enumeration of primary histories x split points x joiner disks on the in-process cluster (real join path, replicate-since handler, supervisor, oplog query, parser) + explicit-state exploration of a write racing the synchronisation",
   text="Every history of create-db + up to 2 (quick) / 3 (thorough) operations over {set with values 'v', 'two words', '7 up', '' ; second key; remove; increment; snapshot; create-db arbiter}, split at every point into before-departure / while-away, joiner with an empty disk or restarting from its disk; a second family starts from a database both nodes have persisted (valid oplog, incremental sync). The node leaves (EOF path), the primary runs the while-away part, the node restarts and joins through the real protocol; then joiner == primary on every database: token, strategy, keys, values byte for byte, versions, removed keys absent. Plus: a write on the primary during the synchronisation, all delivery orders, must reach the joiner.",
   note="One logical clock for the cluster (synchronised wall clocks). Known findings: version-less catch-up commands mangle values (pinned tests assert that format), strategy-less create-db, versions behind, never-snapshotted database missing.", design="7/C05"),
}

def main():
    hooks_commits = ["7115568"]
    checks = []
    for pid in sorted(CHECKS):
        c = CHECKS[pid]
        checks.append({
            "property_id": pid,
            "quick_cmd": f"./check {pid} quick",
            "thorough_cmd": f"./check {pid} thorough",
            "evidence_file": f"/verif/evidence/{pid}.json",
            "replay_cmd_template": "./check replay {path}",
            "engine": "nunmc",
            "level_claimed": {"category": c["level"], "text": c["text"], "design_ref": "DESIGN.md section " + c["design"]},
            "level_note": c["note"],
            "technique": c["technique"],
        })
    allp = [json.loads(l)["id"] for l in open("/verif/properties.jsonl")]
    na = [{"property_id": p, "reason": "check not built yet (work in progress; planned engine in DESIGN.md section 2.1)"} for p in allp if p not in CHECKS]
    m = {
        "version": 1,
        "setup_cmd": "cd /verif/engine && CARGO_NET_OFFLINE=true cargo build --offline",
        "hooks": {
            "guard": "--cfg nundb_verif",
            "enable": "engine/.cargo/config.toml sets rustflags = [\"--cfg\",\"nundb_verif\"] for the harness crate, which depends on /repo by path; every ./check run rebuilds /repo's working tree with the hooks on",
            "baseline_off_cmd": "/verif/baseline_off.sh",
            "source_commits": hooks_commits,
            "add_only": True,
        },
        "engines": [{"name": "nunmc", "path": "engine", "serves_properties": sorted(CHECKS),
                     "kind_free_text": "one Rust binary linking the real nundb library (hooks on). Engines: SEQ (history BFS), ILV (controlled-scheduler interleavings), NET (in-process cluster state graph), CRASH (syscall-log prefixes), FAULT (S3 stub faults)"}],
        "checks": checks,
        "not_applicable": na,
        "notes": "exit codes: 0 held / 1 violation / 2 machinery. known_findings.jsonl lists recorded findings and fixed defects.",
    }
    json.dump(m, open("/verif/MANIFEST.json", "w"), indent=1)
    print("checks:", len(checks), "not_applicable:", len(na))

main()
