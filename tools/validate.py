#!/opt/veriftools/pyvenv/bin/python
import json, jsonschema, sys, glob
jsonschema.validate(json.load(open('/verif/MANIFEST.json')), json.load(open('/root/.vp/MANIFEST.schema.json'))); print('manifest ok')
sch = json.load(open('/root/.vp/EVIDENCE.schema.json'))
m = json.load(open('/verif/MANIFEST.json'))
for c in m['checks']:
    p = c['evidence_file']
    try:
        jsonschema.validate(json.load(open(p)), sch); print(p, 'ok')
    except Exception as e:
        print(p, 'INVALID', str(e)[:300])
