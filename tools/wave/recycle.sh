#!/bin/bash
# usage: recycle.sh <old ID> <new ID> : new scratch worktree that takes over the (warm) target directory of a finished one
set -u
old=/tmp/wt/$1; new=/tmp/wt/$2
git -C /repo worktree prune
git -C /repo worktree add -q --detach $new HEAD || exit 2
mkdir -p $new/SEED
[ -d $old/target ] && mv $old/target $new/target
git -C /repo worktree remove --force $old 2>/dev/null; rm -rf $old
echo "ready $new"
