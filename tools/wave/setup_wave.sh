#!/bin/bash
# usage: setup_wave.sh <ID>...   e.g. setup_wave.sh C01-m C02-m
# Creates /tmp/wt/<ID> (scratch worktree of /repo HEAD, own target dir warmed from /repo/target) and the helper
# scripts in /tmp/wt that a sub-agent may use. Nothing of /verif's checks is visible there.
set -u
mkdir -p /tmp/wt
cp /verif/tools/nextest.toml /tmp/wt/nextest.toml
cp /root/.vp/BASELINE.json /tmp/wt/BASELINE.json
cp /verif/tools/wave/run_baseline.sh /verif/tools/wave/confirm_seed.sh /tmp/wt/
chmod +x /tmp/wt/*.sh
git -C /repo worktree prune
for id in "$@"; do
  d=/tmp/wt/$id
  [ -d $d ] && { git -C /repo worktree remove --force $d 2>/dev/null; rm -rf $d; }
  git -C /repo worktree add -q --detach $d HEAD || exit 2
  mkdir -p $d/SEED
  if [ -d /repo/target ]; then cp -a /repo/target $d/target; fi
  echo "ready $d"
done
