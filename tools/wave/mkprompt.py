#!/usr/bin/env python3
"""mkprompt.py <ID> <focus text>  -> prints the sub-agent prompt for worktree /tmp/wt/<ID> (property text only)"""
import sys, json, os
wid, focus = sys.argv[1], sys.argv[2]
pid = wid.split('-')[0]
props = {json.loads(l)['id']: json.loads(l) for l in open('/verif/properties.jsonl')}
prior = sorted(d for d in os.listdir('/verif/seeded') if d.startswith(pid + '-'))
prior_txt = '; '.join(d[len(pid)+1:].replace('-', ' ') for d in prior) or 'none'
t = open('/verif/tools/wave/PROMPT_TEMPLATE.md').read()
t = (t.replace('@DIR@', f'/tmp/wt/{wid}').replace('@PID@', pid)
      .replace('@STATEMENT@', props[pid]['statement']).replace('@FOCUS@', focus).replace('@PRIOR@', prior_txt))
print(t)
