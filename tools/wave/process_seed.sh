#!/bin/bash
# usage: process_seed.sh <ID> [tier]   : my confirmation of the sub-agent's seed, then the property's check against it (scratch build)
id=$1; tier=${2:-quick}; prop=${id%%-*}
/tmp/wt/confirm_seed.sh $id > /tmp/wt/confirm_$id.log 2>&1
echo "##### $id confirm:"; grep -E "baseline stable|test result|does not apply" /tmp/wt/confirm_$id.log
echo "##### $id check $prop $tier:"
/verif/tools/try_seed_scratch.sh /tmp/wt/$id/SEED/patch.diff $tier $prop 2>&1 | tail -8 | cut -c1-400
