#!/bin/bash
# usage: run_baseline.sh <worktree dir>
# Runs the repository's pinned test suite in that worktree and reports how many of the 148 pinned tests pass.
# (The suite binds fixed ports, so runs are serialised by a lock.)
set -u
cd "$1" || exit 2
export CARGO_NET_OFFLINE=true
exec 9>/tmp/nun-db-baseline.lock
flock 9
unset RUSTFLAGS
rm -f target/nextest/pb/junit.xml
cargo nextest run --workspace --no-fail-fast --tool-config-file pb:/tmp/wt/nextest.toml --profile pb --test-threads 8 --offline >"$1/baseline.log" 2>&1 9>&-
python3 - "$1" <<'PY'
import json, sys, xml.etree.ElementTree as ET
d = sys.argv[1]
base = json.load(open('/tmp/wt/BASELINE.json'))
want = set(base['stable_pass'])
try:
    root = ET.parse(d + '/target/nextest/pb/junit.xml').getroot()
except Exception as e:
    print('no junit output (build failure? see baseline.log):', e); sys.exit(2)
passed, failed = set(), set()
for tc in root.iter('testcase'):
    tid = (tc.get('classname') or '') + '::' + (tc.get('name') or '')
    if tc.find('failure') is not None or tc.find('error') is not None or tc.find('flakyFailure') is not None or tc.find('rerunFailure') is not None:
        failed.add(tid)
    elif tc.find('skipped') is None:
        passed.add(tid)
passed -= failed
missing = sorted(want - passed)
print(f'baseline stable_pass={len(want)} passed_now={len(want & passed)} missing={len(missing)}')
for m in missing: print('  NOT PASSING:', m)
sys.exit(1 if missing else 0)
PY
