#!/bin/bash
# usage: confirm_seed.sh <ID>     (my own confirmation of a sub-agent's seed in /tmp/wt/<ID>)
# SEED/patch.diff applies to a clean worktree; baseline with change; demo fails with / passes without.
set -u
d=/tmp/wt/$1
cd $d || exit 2
out=$d/SEED/confirm.txt
git checkout -q -- . ; rm -f tests/seed_demo.rs
git apply SEED/patch.diff || { echo "patch does not apply" | tee $out; exit 3; }
cp SEED/seed_demo.rs tests/seed_demo.rs
{
echo "## baseline with change"
/tmp/wt/run_baseline.sh $d
echo "## demo with change (expect failure)"
CARGO_NET_OFFLINE=true cargo test --offline --test seed_demo 2>&1 | grep -E "^test |test result|error: test failed" | head -30
git apply -R SEED/patch.diff
echo "## demo without change (expect pass)"
CARGO_NET_OFFLINE=true cargo test --offline --test seed_demo 2>&1 | grep -E "^test |test result|error" | head -30
echo "## done"
} 2>&1 | tee $out
rm -f tests/seed_demo.rs
