#!/usr/bin/env python3
"""collect_seed.py <ID> <seed-name> <needs...>  : copy a confirmed seed from /tmp/wt/<ID>/SEED into /verif/seeded/<seed-name>/"""
import sys, os, shutil, json, re
wid, name = sys.argv[1], sys.argv[2]
needs = " ".join(sys.argv[3:])
src = f"/tmp/wt/{wid}/SEED"; dst = f"/verif/seeded/{name}"
os.makedirs(dst, exist_ok=True)
for f in os.listdir(src):
    shutil.copy(os.path.join(src, f), os.path.join(dst, f))
confirm = open(os.path.join(src, "confirm.txt")).read() if os.path.exists(os.path.join(src, "confirm.txt")) else ""
base = re.search(r"baseline stable_pass=.*", confirm)
meta = {
  "seed": name, "property": wid.split("-")[0], "origin": "independent sub-agent given only the property text and a scratch worktree",
  "needs_to_manifest": needs,
  "confirmed_by_me": {
     "commands": [f"/tmp/wt/confirm_seed.sh {wid}  (= run_baseline.sh with the change; cargo test --test seed_demo with the change; git apply -R; cargo test --test seed_demo)"],
     "baseline_with_change": base.group(0) if base else "?",
     "demo_with_change": "FAILED" if "FAILED" in confirm.split("## demo without change")[0] else "?",
     "demo_without_change": "ok" if "test result: ok" in confirm.split("## demo without change")[-1] else "?",
  },
  "detected_by": {},
}
json.dump(meta, open(os.path.join(dst, "meta.json"), "w"), indent=1)
print("collected", dst, meta["confirmed_by_me"])
