#!/bin/bash
# usage: try_seed_scratch.sh <abs patch.diff> <tier> <PROPERTY>...
# Like try_seed.sh, but never touches /repo or /verif/target: the seeded change is applied to a
# scratch worktree of /repo's HEAD, and a scratch copy of the engine is built against it.
# (For use while background checks are building from /repo.)  Everything lives in /tmp/seedtry.
set -u
patch="$1"; tier="$2"; shift 2
S=${SEEDTRY_DIR:-/tmp/seedtry}
mkdir -p $S
if [ -d $S/repo ]; then git -C /repo worktree remove --force $S/repo 2>/dev/null; rm -rf $S/repo; fi
git -C /repo worktree prune
for try in 1 2 3 4 5 6; do git -C /repo worktree add -q --detach $S/repo HEAD 2>/dev/null && break; sleep $try; done
[ -d $S/repo/src ] || { echo "worktree could not be created"; exit 2; }
( cd $S/repo && { git apply --3way "$patch" 2>$S/apply.log || git apply "$patch" 2>>$S/apply.log; } ) || { echo "patch does not apply:"; cat $S/apply.log; git -C /repo worktree remove --force $S/repo; exit 3; }
rm -rf $S/engine; mkdir -p $S/engine
rsync -a --exclude target /verif/engine/ $S/engine/
sed -i "s#path = \"/repo\"#path = \"$S/repo\"#" $S/engine/Cargo.toml
sed -i "s#target-dir = \"/verif/target\"#target-dir = \"$S/target\"#" $S/engine/.cargo/config.toml
( cd $S/engine && CARGO_NET_OFFLINE=true cargo build --offline 2>&1 | grep -E "^error" -A12 | head -30 )
[ -x $S/target/debug/nunmc ] || { echo "build failed"; exit 2; }
for p in "$@"; do
  echo "=== $p $tier with seed $(basename $(dirname $patch))"
  ( cd $S/engine && NUNMC_EVIDENCE_DIR=$S/evidence $S/target/debug/nunmc "$p" "$tier" 2>&1 | grep -aE "VIOLATION|held|VIOLATED|machinery|unlisted clause" | cut -c1-260 | awk '/^VIOLATION/{n++; if(n<=2)print; next} {print} END{print "  (" n+0 " VIOLATION lines)"}' | tail -12 )
done
git -C /repo worktree remove --force $S/repo
rm -rf $S/engine
# $S/target is kept between trials (incremental); remove with: rm -rf /tmp/seedtry
