#!/usr/bin/env python3
"""mark_detected.py <seed-name> <PROPERTY> <tier> <how...> : record which check caught a stored seed"""
import sys, json
name, prop, tier = sys.argv[1:4]; how = " ".join(sys.argv[4:])
p = f"/verif/seeded/{name}/meta.json"
m = json.load(open(p))
m.setdefault("detected_by", {})[prop] = {"tier": tier, "how": how or "tools/try_seed_scratch.sh: the check printed VIOLATION lines and exited 1 with the change, and holds without it"}
json.dump(m, open(p, "w"), indent=1)
