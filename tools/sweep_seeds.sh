#!/bin/bash
# usage: sweep_seeds.sh [tier]   -- every stored seed against the check of its property (scratch build, /repo untouched)
# writes /verif/seeded/SWEEP.txt : <seed> <property> <tier> caught|MISSED <number of VIOLATION lines>
tier="${1:-quick}"
out=/verif/seeded/SWEEP.txt
: > $out.tmp
for d in /verif/seeded/[A-Z]*/; do
  name=$(basename $d)
  prop=$(python3 -c "import json;print(json.load(open('$d/meta.json'))['property'])")
  res=$(/verif/tools/try_seed_scratch.sh $d/patch.diff $tier $prop 2>&1 | tail -1)
  n=$(echo "$res" | grep -o '[0-9]* VIOLATION' | grep -o '[0-9]*')
  if [ -n "$n" ] && [ "$n" -gt 0 ]; then v=caught; else v=MISSED; fi
  echo "$name $prop $tier $v ${n:-?}" | tee -a $out.tmp
done
mv $out.tmp $out
